"""C18 - chunk parser output does not depend on how the bytes arrive."""
import json
import vlib
from vlib import Check, MachineryError


def run(tier, replay=None):
    c = Check("C18", tier)
    c.rule = ("one scenario = one Parse() of the real parser on a scripted reader: (R) every terminal behaviour of the "
              "explorer model (stream x truncation x EOF-joined x read pattern) replayed with the model's schedule, "
              "(V) seeded synthetic streams (corrupt sizes, truncation, injected reader/callback errors, 7 initial buffer "
              "sizes, 1-byte / all-at-once / fixed / random partitions) and real init+chunked segments; distinct = distinct "
              "(stream, truncation, partition, eof mode, error injection, buffer size)")
    c.assumptions = ["a Parse() that does not return within 10 s or needs more than 4*len+64 reads counts as non-terminating",
                     "box types outside the usual top-level set are logged as 'junk'"]
    c.trusted = ["harness/drive/c18 recorder and its independent box walk", "TLC"]
    wk = 4
    # (M) explorer judged by the oracle operators, all partitions (nondeterministic reader);
    # *_orig: the algorithm before the two fix commits (design counterexamples kept as documentation)
    jobs = [("ChunkParserImpl_MC", f"ChunkParserImpl_wf_{tier}.cfg", dict(workers=wk, timeout=3000, required_actions=("HdrDone", "BodyDone"))),
            ("ChunkParserImpl_MC", f"ChunkParserImpl_corrupt_{tier}.cfg", dict(workers=wk, timeout=3000)),
            ("ChunkParserImpl_MC", f"ChunkParserImpl_gen_{tier}.cfg", dict(workers=1, coverage=False, timeout=3000))]
    if tier == "thorough":
        jobs += [("ChunkParserImpl_MC", "ChunkParserImpl_wf_quick_orig.cfg", dict(workers=wk, expect="violation", expect_violated=("InitOK",), coverage=False)),
                 ("ChunkParserImpl_MC", "ChunkParserImpl_corrupt_quick_orig.cfg", dict(workers=wk, expect="violation", expect_violated=("Terminates",), coverage=False))]
    res = c.models(jobs)
    g = res[2]
    if tier == "thorough":
        c.extra["design_counterexamples_original_algorithm"] = {"eof_joined_init_flag": res[3].violated, "size_lt_8": res[4].violated}
    beh = vlib.tlc_printed_json(g, "GEN")
    if not beh:
        raise MachineryError("explorer produced no behaviours")
    genf = c.work / "gen.jsonl"
    with open(genf, "w") as f:
        for b in beh:
            f.write(json.dumps(b) + "\n")
    drive = vlib.build_harness(cmd="c18")
    trace = c.work / "c18.ndjson"
    n, real = (300, 24) if tier == "quick" else (3000, 120)
    st = vlib.run_driver(drive, ["-out", trace, "-gen", genf, "-seed", c.seed, "-n", n, "-real", real])
    r, lines = c.validate_trace("ChunkParser_Trace", trace, timeout=3000)
    events = vlib.read_ndjson(trace)
    # attach the scenario header to each failure (for classification)
    hdr_at = {}
    cur = None
    for i, e in enumerate(events, 1):
        if e["ev"] == "hdr":
            cur = e
        hdr_at[i] = cur
    for f in vlib.bad_to_failures(r, events):
        h = hdr_at.get(f["line"]) or {}
        f["desc"] = h.get("desc")
        f["wf"] = h.get("wf")
        f["eofJoined"] = h.get("eofJoined")
        f["boxes"] = h.get("boxes")
        f["stream_len"] = h.get("len")
        c.add_failure(f)
    c.traces += st["scenarios"]
    c.events += lines
    c.distinct_nontrivial = st["distinct"]
    c.samples = st.get("samples", [])
    c.extra["replayed_explorer_behaviours"] = len(beh)
    c.extra["hangs"] = st["hangs"]
    if st["fidelity_mismatch"]:
        c.fidelity.append(f"{st['fidelity_mismatch']} replayed behaviours: real callbacks differ from the explorer's")
    return c.finish()

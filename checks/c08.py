"""C08 - no request can crash a handler or make it spin."""
import json
import vlib
from vlib import Check, MachineryError


def run(tier, replay=None):
    c = Check("C08", tier, level="exploration")
    c.rule = ("one scenario = one HTTP request sent through the real router (livesim2: plain / DRM-configured / request-limited "
              "server; CMAF-ingest receiver: parsing and raw mode) in a child process; the requests are the concretisation "
              "(seeded representatives per value class) of every element of the abstract request space enumerated by TLC "
              "(UrlSpace.tla: every (key, class) singly x every tail shape, pairs of (key, class) x tails, /patch, /urlgen/*, "
              "licence POSTs, /api, receiver method x path x body x Content-Length); distinct = distinct abstract requests")
    c.assumptions = [
        "a handler that has not returned within 2 s is re-run alone with a 20 s bound (quick: 8 s); not returning then = does "
        "not terminate (requests in chunked low-latency mode may wait by design and are exempt; traffic states s/h are not generated)",
        "a child process whose heap grows beyond 1 GiB during one request is treated like a first-stage timeout",
        "4xx is demanded only for the classes listed in UrlSpaceOps.MalformedAlways/MalformedFor/BuOutOfRange, 404 only for "
        "unknown asset / representation / segment name with otherwise ordinary parameters; everything else: no crash, no hang",
        "upload bodies whose first box size is between 1 MiB and 4 GiB without wrapping are not generated (the parser "
        "allocates that much)",
        "status-code cycles of 10^9..10^10 s are not generated: calcStatusCode walks the whole cycle, a finite computation of "
        "1.4-7 s per request (measured), which a wall-time bound cannot tell from non-termination; call sites that returned "
        "twice when re-run alone are recorded as 'slow' (inconclusive, counted, not judged)",
        "value class membership of the concrete strings is by construction in harness/drive/c08/space.go"]
    c.trusted = ["harness/drive/c08 concretiser and recorder (chi LogEntry.Panic capture, goroutine dump on timeout)", "TLC"]
    # (M/R) the abstract space, oracle sanity on every element, GEN lines
    g = c.model("UrlSpace", f"UrlSpace_{tier}.cfg", workers=1, coverage=False, timeout=3000)
    reqs = vlib.tlc_printed_json(g, "GEN")
    if len(reqs) < 1000 or len(reqs) != g.distinct:
        raise MachineryError(f"UrlSpace printed {len(reqs)} requests for {g.distinct} states")
    genf = c.work / "gen.jsonl"
    with open(genf, "w") as f:
        for r in reqs:
            f.write(json.dumps(r) + "\n")
    # (V) real code
    drive = vlib.build_harness(cmd="c08")
    trace = c.work / "c08.ndjson"
    reps1, reps2, cbound, budget = (1, 1, 8000, 24) if tier == "quick" else (3, 1, 20000, 60)
    st = vlib.run_driver(drive, ["-gen", genf, "-out", trace, "-seed", c.seed, "-work", c.work / "drv", "-workers", 4,
                                 "-reps1", reps1, "-reps2", reps2, "-cbound", cbound, "-budget", budget], timeout=3000)
    r, lines = c.validate_trace("UrlSpace_Trace", trace, timeout=3000)
    events = vlib.read_ndjson(trace)
    stats = vlib.tlc_printed_json(r, "C08STATS")
    if not stats:
        raise MachineryError("trace spec printed no C08STATS")
    for k in ("must4xx", "must404", "maywait", "status"):
        if stats[0].get(k, 0) <= 0:
            raise MachineryError(f"vacuity: no request with {k} in the trace ({stats[0]})")
    for f in vlib.bad_to_failures(r, events):
        if f["clause"].startswith("C08.meta"):
            raise MachineryError(f"trace inconsistent: {f}")
        req = events[f["line"] - 2]
        if req.get("ev") != "req" or req.get("id") != f.get("id"):
            raise MachineryError(f"no request line for failing outcome {f}")
        for k in ("srv", "ep", "method", "asset", "tail", "query", "body", "url"):
            f[k] = req[k]
        f["pk"] = "+".join(sorted(p["k"] + ":" + p["c"] for p in req["parts"]))
        f["ctx"] = "+".join(sorted(p["k"] + ":" + p["c"] for p in req["ctx"]))
        f.pop("parts", None)
        c.add_failure(f)
    c.traces += st["scenarios"]
    c.events += lines
    c.distinct_nontrivial = st["distinct"]
    c.samples = st.get("samples", [])
    c.extra["abstract_requests"] = len(reqs)
    c.extra["driver"] = {k: st[k] for k in ("kinds", "status_classes", "crash_sites", "endpoints", "children", "child_restarts",
                                            "confirm_runs", "inconclusive", "unattributed_crashes", "max_ms") if k in st}
    c.extra["clause_antecedents"] = stats[0]
    if st.get("unattributed_crashes", 0) > 0:
        c.fidelity.append(f"{st['unattributed_crashes']} child crash(es) could not be attributed to a request")
    return c.finish()

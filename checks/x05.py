"""X05 (extra specification) - asset mirroring and loading: dashfetcher mirrors exactly what a VoD MPD references, and what
livesim2 loads from a VoD directory is exactly what the files say (or a clean refusal)."""
import json

import vlib
from vlib import Check, MachineryError

DEFAULT = {"v": "numdur", "a": "numdur", "sn": 1, "sub": "id", "lvl": "as", "nv": 1, "base": "none", "big": "no", "lay": "u90k",
           "per": "start", "typ": "static", "adur": "same"}


def _discriminators(f, hdr, run, ev):
    """Fields that tell the failing input class (for known_findings matching only; the verdict is TLC's)."""
    sc = hdr["sc"]
    sh = sc["shape"]
    f["kind"] = hdr["kind"]
    for k, v in sh.items():
        f["sh_" + k] = v
    f["shape"] = ",".join(f"{k}={v}" for k, v in sorted(sh.items()) if DEFAULT.get(k) != v) or "default"
    if hdr["kind"] == "fetch":
        f["fault"] = sc["fault"]["kind"]
        f["fault_rep"] = sc["fault"]["rep"]
        f["fault_pos"] = sc["fault"]["pos"]
        f["plan"] = "+".join(sc["plan"])
        if run is not None:
            f["force"] = bool(run["force"])
            f["healthy"] = bool(run["healthy"])
    else:
        d = ev.get("d") if isinstance(ev.get("d"), dict) else None
        df = sc.get("defect", {})
        f["defect"] = (d or df).get("kind", "-")
        f["defect_rep"] = (d or df).get("rep", "-")
        f["defect_pos"] = (d or df).get("pos", "-")
        f["defect_how"] = (d or df).get("how", "-")
        if d:
            f["vmode"], f["amode"] = d["vmode"], d["amode"]
        f["mpds"] = sc.get("mpds", "-")
    try:
        det = json.loads(f.get("detail") or "{}")
        if isinstance(det, dict):
            if "aspects" in det:
                f["aspects"] = "+".join(sorted(det["aspects"]))
            for k in ("first", "n", "err", "panic", "st", "why"):
                if k in det and k not in f:
                    f[k] = det[k]
            if hdr["kind"] == "fetch" and "first" in det:
                f["first_in_tail"] = det["first"] in hdr.get("tail", [])
    except (ValueError, TypeError):
        pass


def run(tier, replay=None):
    c = Check("X05", tier)
    c.rule = ("one scenario = one element of the abstract scenario space enumerated by TLC as the initial states of AssetMirror.tla (GEN lines): "
              "(A) fetch: an abstract VoD MPD shape (addressing of video / audio, startNumber, identifier substitution, template level, two video "
              "Representations, BaseURL, 10 MHz / 60 s timing, segment layout, Period signalling, MPD@type, audio length: the default, every single "
              "deviation, listed extras; thorough: every pair), at most one origin fault (404 / 500 / dropped connection / short body / stalled body on the "
              "MPD, an initialization, first, middle or last segment of a Representation) and a plan of runs (again, --force, origin changed in between); "
              "the driver builds the asset with known references, serves it from an HTTP origin (loopback) with the fault, calls dashfetcher's "
              "app.Fetch in-process per run and records the origin's request log, the output directory and the result; "
              "(B) load: a shape, one damage of the directory (missing / empty / truncated / garbage / fragment-less / text media or initialization file, "
              "no files, extra file, broken MPD), nesting depth and one or two MPDs; the driver builds a tree (a loadable companion asset, the variant, "
              "non-DASH files), calls app.SetupServer and records /assets, the live MPD, N+2 consecutive live video segments, audio segments and /vod; "
              "complete mirrors of (A) are loaded as assets with their origin's ground truth. Every clause is judged by TLC on every recorded run / "
              "start / (asset, MPD) / vod request; distinct = distinct abstract scenarios")
    c.assumptions = [
        "README: dashfetcher supports SegmentTimeline with $Time$ and SegmentTemplate with $Number$ (+ @duration), no BaseURL; for other MPDs only "
        "X05.nocrash / ident / only / skip are demanded",
        "X05.report is the weakest reading: a failure must be named in the returned error or in a log record of level >= WARN; runs that return nil "
        "although a referenced file failed are counted (silent_failures), not judged",
        "the segment number one beyond the computed count may be requested and stored (fetcher.go: 'Try one more to avoid rounding problems')",
        "a GET repeated transparently by net/http after a dropped connection is not a failure of the run",
        "the time limit of a run with a stalled origin is Options.MaxTimeS = 1 (the command line has no such flag: a stalled origin without it "
        "blocks dashfetcher forever - not judged)",
        "loading: a missing $Number$ file may end the representation at the previous number (asset.go: 'Loop until we cannot find more files'); any "
        "other damaged file must lead to a refusal; MPD without @type and MPD with BaseURL may be loaded or refused; SegmentTemplate on Representation "
        "level, SegmentTimeline with $Number$, dynamic, multi-period, non-integral loop duration must be refused (README / error texts of asset.go)",
        "audio is judged by status only (it is re-segmented to follow the video, C03); SegmentDurMS itself is not observable - judged through the "
        "live $Number$ MPD's video SegmentTemplate@duration/@timescale",
        "/vod: directories and index.html (net/http FileServer redirects) are not requested",
        "assets are built from the 8 s of the bundled testpic_2s asset (re-timed samples): 3-5 segments per Representation",
    ]
    c.trusted = ["harness/assetgen (segments) and harness/drive/x05/gen.go (addressing, MPD text): ground truth by construction; "
                 "checked against the MPD semantics by checkConsistent (count = ceil(T/@duration))",
                 "harness/drive/x05/origin.go (fault injection, request log), listing of the output directory, substring match of URLs in error / log texts",
                 "parsing of /assets (HTML) and of the live MPD (encoding/xml), harness/project (independent MP4 parse)", "TLC"]
    # (M) + (R): scenario space as initial states, the mirroring machine, GEN lines
    g = c.model("AssetMirror", f"AssetMirror_{tier}.cfg", workers=4, coverage=True, timeout=1200,
                required_actions=("Begin", "FetchOne", "EndRun", "NextRun", "Unsupported", "Load"))
    gens = vlib.tlc_printed_json(g, "GEN")
    if len(gens) < 500:
        raise MachineryError(f"AssetMirror printed {len(gens)} scenarios")
    # the machine as fetcher.go is now (Variant=code, a refinement of the specified tool): every invariant holds; the machine as
    # fetcher.go was first written (Variant=orig, before a355798 / 2447055 / fd3796b): TLC must still find the design
    # counterexamples (kept as history)
    if tier == "quick":
        origs = (("partial", "InvNoPartial"),)
    else:
        origs = (("partial", "InvNoPartial"), ("ident", "InvIdent"), ("complete", "InvComplete"), ("reported", "InvReported"))
    jobs = [("AssetMirror", f"AssetMirror_code_{tier}.cfg", dict(coverage=False, workers=2))]
    jobs += [("AssetMirror", f"AssetMirror_orig_{n}.cfg", dict(expect="violation", expect_violated=(inv,), coverage=False, workers=2))
             for n, inv in origs]
    res = c.models(jobs, parallel=4)
    for r in res[1:]:
        if r.status != "invariant":
            raise MachineryError(f"AssetMirror (Variant=orig) did not produce the expected counterexample: {r.status}")
    genf = c.work / "gen.jsonl"
    genf.write_text("".join(json.dumps(x) + "\n" for x in gens))
    # (V) real code
    drive = vlib.build_harness(cmd="x05")
    trace = c.work / "x05.ndjson"
    st = vlib.run_driver(drive, ["-gen", genf, "-out", trace, "-work", c.work / "drv", "-seed", c.seed,
                                 "-mirrortrees", 3 if tier == "quick" else 12], timeout=3000)
    if tier == "quick":
        r, lines = c.validate_trace("AssetMirror_Trace", trace, timeout=1200)
    else:
        r, lines = c.validate_trace_parallel("AssetMirror_Trace", trace, chunks=6, timeout=3000)
    events = vlib.read_ndjson(trace)
    hdr_at, run_at = {}, {}
    hdr = runev = None
    for i, e in enumerate(events, 1):
        if e["ev"] == "hdr":
            hdr, runev = e, None
        elif e["ev"] == "run":
            runev = e
        hdr_at[i], run_at[i] = hdr, runev
    for f in vlib.bad_to_failures(r, events):
        if f["clause"].startswith("hdr."):
            raise MachineryError(f"trace inconsistent: {f}")
        ev = events[f["line"] - 1]
        for k in ("sc", "d", "obs", "refs", "onemore", "origin", "files", "reqs", "named", "warned", "mpdlist"):
            f.pop(k, None)
        _discriminators(f, hdr_at[f["line"]], run_at[f["line"]], ev)
        c.add_failure(f)
    # non-vacuity (machinery): every kind of event judged, every fault kind injected and seen by the origin, mirrors loaded
    kinds = {}
    for e in events:
        kinds[e["ev"]] = kinds.get(e["ev"], 0) + 1
    faults_seen = {rq[2] for e in events if e["ev"] == "get" for rq in e["reqs"]}
    listed = sum(1 for e in events if e["ev"] == "load" and e["listed"])
    refused = sum(1 for e in events if e["ev"] == "load" and not e["listed"])
    segs = sum(len(e["obs"]["nums"]) for e in events if e["ev"] == "load")
    need = {"hdr", "run", "get", "file", "result", "start", "load", "vod"}
    planned = {e["sc"]["fault"]["kind"] for e in events if e["ev"] == "hdr" and e["kind"] == "fetch"}
    # (a) on the constructed inputs - always
    if need - set(kinds) or not {"none", "404", "500", "drop", "trunc", "stall"} <= planned or st.get("fetch_runs", 0) < 400 \
            or st.get("load_scenarios", 0) < 150:
        raise MachineryError(f"X05 vacuity (inputs): events {kinds}, planned faults {planned}, stats {st}")
    # (b) on what the code did with them - only when the run is otherwise clean (a defect may legitimately empty these sets,
    #     e.g. a fetcher that mirrors nothing leaves no mirror to load: that is a violation, not a machinery problem)
    new, _, _ = vlib.classify("X05", c.failures)
    if not new and (not {"404", "500", "drop", "trunc", "stall"} <= faults_seen or listed < 50 or refused < 20 or segs < 300
                    or st.get("mirrors_loaded", 0) < 5):
        raise MachineryError(f"X05 vacuity: faults {faults_seen}, listed {listed}, refused {refused}, segments {segs}, stats {st}")
    xs = vlib.tlc_printed_json(r, "X05STATS") if hasattr(r, "out") else []
    c.traces += st["scenarios"]
    c.events += lines
    c.distinct_nontrivial = st["distinct"]
    c.samples = st.get("samples", [])
    c.extra["abstract_scenarios"] = len(gens)
    c.extra["driver"] = {k: v for k, v in st.items() if not k.startswith("_") and k != "samples"}
    c.extra["events_by_kind"] = kinds
    c.extra["listed"], c.extra["refused"], c.extra["live_segments_compared"] = listed, refused, segs
    if xs:
        c.extra["trace_stats"] = xs[0]
    return c.finish()

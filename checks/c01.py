"""C01 - looped output is one gap-free, wall-clock-anchored media timeline."""
import vlib
from vlib import Check


def run(tier, replay=None):
    c = Check("C01", tier)
    c.rule = ("one event per served media segment; scenario = (asset, representation, addressing mode, startNumber, start time); "
              "assets = bundled testpic_2s/6s/8s (ground truth by independent parse of the VoD files) + generated layouts "
              "(irregular / alternating / 1001-based / sub-second / non-zero first tfdt; ground truth by construction); indices "
              "0..2N+1 and kN-2..kN+2 for wraps k in {3, 1000, 2^32-tick boundary, year-2025 range}; distinct = distinct scenarios")
    c.assumptions = ["segments are requested 1 ms after their availability instant (status 200 is needed to observe them)",
                     "text payload identity is judged on the TTML with timestamps removed"]
    c.trusted = ["mp4ff decoder in the recorder", "asset generator ground truth", "TLC"]
    c.model("LiveTimeline_MC", f"LiveTimeline_{tier}.cfg", workers=4, required_actions=("Tick",))
    if tier == "thorough":
        # unbounded: contiguity across the loop wrap, monotone availability and status, and the pair arithmetic every
        # timeline trace specification relies on (TLAPS, for any N, durations > 0, any integer loop count)
        c.proofs(["time_tlaps", "livetimeline_tlaps"])
    drive = vlib.build_harness(cmd="c01")
    trace = c.work / "c01.ndjson"
    args = ["-out", trace, "-work", c.work, "-seed", c.seed] + (["-thorough"] if tier == "thorough" else [])
    st = vlib.run_driver(drive, args, timeout=3000)
    r, lines = c.validate_trace("LiveTimeline_Trace", trace, timeout=3000)
    events = vlib.read_ndjson(trace)
    hdr = None
    hdr_at = {}
    for i, e in enumerate(events, 1):
        if e["ev"] == "hdr":
            hdr = e
        hdr_at[i] = hdr
    for f in vlib.bad_to_failures(r, events):
        h = hdr_at.get(f["line"]) or {}
        for k in ("asset", "rep", "kind", "mode", "snr", "ast", "cfg"):
            f.setdefault(k, h.get(k))
        c.add_failure(f)
    c.traces += st["scenarios"]
    c.events += lines
    c.distinct_nontrivial = st["distinct"]
    c.samples = st.get("samples", [])
    c.extra["segments_observed"] = st["segments"]
    return c.finish()

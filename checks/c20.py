"""C20 - the request limiter enforces its quota exactly, also under concurrency."""
import json
import vlib
from vlib import Check, MachineryError, SPEC, WORK


def run(tier, replay=None):
    c = Check("C20", tier)
    c.rule = ("sequences: every call sequence of the TLC-enumerated oracle machine (LimiterGen) replayed at two time "
              "units + seeded random sequences (virtual time, boundary-biased steps, lagging clocks) + 16-goroutine runs "
              "ordered by the in-lock hook + real-clock HTTP middleware runs; distinct = distinct call sequences / scenario "
              "configurations; every scenario crosses the quota or an interval boundary")
    c.assumptions = ["times are logged in whole ms; at |t - resetTime| = interval either behaviour is accepted",
                     "white-list ground truth is decided by the driver by construction of the address",
                     "race clause: Go race detector (sound, not complete) on a child built with -race"]
    c.trusted = ["Go race detector", "harness/drive/c20 recorder", "TLC"]
    # (M) oracle machine and explorer
    c.model("Limiter", f"Limiter_{tier}.cfg", required_actions=("Next",))
    c.model("LimiterImpl", "LimiterImpl_locked.cfg", required_actions=("rst2", "inc", "rd"))
    r = c.model("LimiterImpl", "LimiterImpl_unlocked.cfg", expect="violation", expect_violated=("NoConflict",), coverage=False)
    c.extra["design_counterexample_unlocked_EndTime"] = r.status
    if tier == "thorough":
        # unbounded: the oracle machine's invariants are inductive for any set of addresses, any quota/interval, all instants
        c.proofs(["limiter_tlaps", "limiter_apalache_init", "limiter_apalache_step", "limiter_apalache_reset"])
    # (R) generator
    g = c.model("LimiterGen", f"LimiterGen_{tier}.cfg", workers=1, coverage=False)
    seqs = vlib.tlc_printed_json(g, "GEN")
    if not seqs:
        raise MachineryError("LimiterGen produced no sequences")
    genf = c.work / "gen.jsonl"
    with open(genf, "w") as f:
        for s in seqs:
            f.write(json.dumps([{"a": x["a"], "t": x["t"]} for x in s]) + "\n")
    c.exhaustive = False
    # (V) real code
    drive = vlib.build_harness(cmd="c20")
    trace = c.work / "c20.ndjson"
    n, scen = (2000, 20) if tier == "quick" else (8000, 320)
    st = vlib.run_driver(drive, ["-out", trace, "-gen", genf, "-seed", c.seed, "-n", n, "-scen", scen])
    r, lines = c.validate_trace("Limiter_Trace", trace)
    events = vlib.read_ndjson(trace)
    for f in vlib.bad_to_failures(r, events):
        c.add_failure(f)
    c.traces += st["scenarios"]
    c.events += lines
    c.distinct_nontrivial = st["distinct_sequences"]
    c.samples = st.get("samples", [])
    c.extra["replayed_tlc_sequences"] = len(seqs)
    # race clause: child process with the race detector
    drive_race = vlib.build_harness(race=True, cmd="c20")
    reports, rc, tail = vlib.run_race_child(drive_race, ["-mode", "racechild", "-seed", c.seed])
    c.extra["race_child"] = {"rc": rc, "reports": reports}
    for rep in reports:
        c.add_failure({"clause": "C20.norace", "site": rep["site"], "ev": "race"})
    c.events += 1
    return c.finish()

"""C14 - fault-injection parameters (statuscode_, traffic_) hit exactly the scheduled requests."""
import json
import re
from concurrent.futures import ThreadPoolExecutor

import vlib
from vlib import Check, MachineryError

WITNESSES = ("NeverHit", "NeverBothHit", "NeverEmptyCycle")
HDR_FIELDS = ("asset", "cfg", "part", "mode", "ast", "snr", "multirep", "TS", "dur", "vod0")


def run(tier, replay=None):
    c = Check("C14", tier)
    c.rule = ("one event per request. statuscode: scenario = (asset incl. generated irregular layouts, MPD type number/time/"
              "timeline-number, start in {0,1000}, snr in {default,5}, 1-2 simultaneous patterns with cycle in {10,30,7,45} s, "
              "rsq 0..4, code 404/503/410, rep filter */V300/A48/V300,A48, window at the start of the stream or at 1.75e9 s); "
              "every video segment and the audio segment following it over >= 5 cycles is requested once at its availability "
              "instant + 1 ms. traffic: scenario = (asset, 1-3 patterns over u/d/s/h with durations 1/2/10, start in "
              "{0,1000,1007}, sub-second offset, MPD type number/time/timeline-number, single period or periods_N with N in "
              "{60,120,30,20,18} with/without continuous_1 at instants deep in an hour); at every second of 2 cycles the MPD is "
              "fetched (every Period must offer one BaseURL per pattern) and a segment is requested through each BaseURL with a URL "
              "built from that MPD (BaseURL of the Period containing the segment + SegmentTemplate@media + Representation@id; "
              "slow/hang seconds sampled on interval edges); every 4th statuscode scenario carries periods_N and builds its URLs "
              "from the multi-period MPD. distinct = distinct (configuration, representation, segment) + distinct (traffic "
              "pattern, second of its cycle) + distinct (MPD configuration, number of periods)")
    c.assumptions = [
        "cycles may be counted from media time 0 (availabilityStartTime) or from the start of the first segment (assets whose "
        "first decode time is not 0): both readings accepted",
        "when several patterns schedule the same request any of their codes is accepted",
        "the cycle of a traffic pattern may be anchored at the epoch or at availabilityStartTime, consistently within a scenario",
        "slow = normal answer after >= 1 s, hanging = 503 after >= 5 s (the text gives no figures; livesim2 documents 2 s / 10 s); "
        "an 'up' answer must take < 1 s (minimum of up to 4 attempts, the machine is shared)",
        "the names of the BaseURLs (bu<i>/) are not demanded: every Period must list one distinct BaseURL per pattern, the same "
        "list in all Periods, and BaseURL number b must behave as pattern number b",
        "the value of $Number$/$Time$ put into the MPD's template is the driver's (newest available segment, or one 25 s older); "
        "a statuscode scenario whose multi-period MPD has no usable Period/template falls back to the hand-built URL (counted)",
        "every request is issued when its segment is available (the order of availability check and fault injection is not "
        "fixed by the text)",
        "audio $Time$ requests under start_<t> are not issued (refused 410 by the C04 finding findRefSegMetaFromTime)",
        "a request not answered within 10 s counts as not answered (status 0, judged like any answer); the driver then stops "
        "that scenario (the abandoned handler keeps running in the driver process)",
    ]
    c.trusted = ["asset generator ground truth / independent VoD parse", "harness/drive/c14 URL construction and wall-time measurement", "TLC"]

    # (M) oracle model + non-vacuity witnesses, concurrently with the driver
    jobs = [("Faults_MC", f"Faults_{tier}.cfg", dict(workers=4, timeout=2400, required_actions=("NextSeg", "NextSec")))]
    jobs += [("Faults_MC", f"Faults_witness_{w}.cfg", dict(workers=1, expect="violation", expect_violated=(w,), coverage=False)) for w in WITNESSES]
    pool = ThreadPoolExecutor(max_workers=1)
    mfut = pool.submit(c.models, jobs)

    drive = vlib.build_harness(cmd="c14")
    trace = c.work / "c14.ndjson"
    shards = 1 if tier == "quick" else 8
    args = ["-out", trace, "-work", c.work, "-seed", c.seed, "-shards", shards] + (["-thorough"] if tier == "thorough" else [])
    st = vlib.run_driver(drive, args, timeout=3000)
    files = st.get("files") or []
    if not files:
        raise MachineryError("driver wrote no trace")

    def validate(path):
        r, lines = c.validate_trace("Faults_Trace", path, timeout=3000, heap="6g")
        events = vlib.read_ndjson(path)
        stats = vlib.tlc_printed_json(r, "STATS")
        if not stats:
            raise MachineryError(f"trace spec printed no STATS for {path}")
        hdr, hdr_at = None, {}
        for i, e in enumerate(events, 1):
            if e["ev"] == "hdr":
                hdr = e
            hdr_at[i] = hdr
        fails = []
        for f in vlib.bad_to_failures(r, events):
            h = hdr_at.get(f["line"]) or {}
            for k in HDR_FIELDS:
                f.setdefault(k, h.get(k))
            fails.append(f)
        return lines, stats[-1], fails

    with ThreadPoolExecutor(max_workers=3) as ex:
        results = list(ex.map(validate, files))
    tot = {}
    for lines, stats, fails in results:
        c.events += lines
        for k, v in stats.items():
            tot[k] = tot.get(k, 0) + v
        for f in fails:
            c.add_failure(f)

    res = mfut.result()
    pool.shutdown()
    for w, r in zip(WITNESSES, res[1:]):
        if r.status != "invariant" or w not in r.violated:
            raise MachineryError(f"model vacuity: witness {w} not reached ({r.status} {r.violated})")
    c.exhaustive = False

    # non-vacuity of the trace validation: every clause was exercised
    need = ["hit", "miss", "mpd", "u", "d", "s"] + (["h"] if st.get("sleeping_requests", 0) else [])
    missing = [k for k in need if tot.get(k, 0) == 0]
    if missing:
        raise MachineryError(f"vacuity: no event for clause classes {missing} (counts {tot})")
    if not st.get("multi_period_mpds") or not st.get("status_urls_from_mpd"):
        raise MachineryError(f"vacuity: no multi-period MPD observed / no statuscode URL derived from an MPD "
                             f"({st.get('multi_period_mpds')}, {st.get('status_urls_from_mpd')})")
    c.traces += st["scenarios"]
    c.distinct_nontrivial = st["distinct"]
    c.samples = st.get("samples", [])
    c.extra["requests"] = st["requests"]
    c.extra["by_status"] = st.get("by_status")
    c.extra["clause_evaluations"] = tot
    c.extra["status_scenarios"] = st.get("status_scenarios")
    c.extra["traffic_scenarios"] = st.get("traffic_scenarios")
    c.extra["slow_or_hang_requests"] = st.get("sleeping_requests")
    c.extra["unanswered_requests_by_class"] = st.get("unanswered")
    c.extra["multi_period_mpds_observed"] = st.get("multi_period_mpds")
    c.extra["statuscode_urls_derived_from_multi_period_mpd"] = st.get("status_urls_from_mpd")
    c.extra["statuscode_urls_hand_built_because_mpd_unusable"] = st.get("status_urls_fallback")
    return c.finish()

"""C19 - the ingest receiver tolerates concurrent uploads."""
import json
import re
import subprocess
import time
import vlib
from vlib import Check, MachineryError

GEN = "ReceiverConcGen"
IMPL = "ReceiverConcImpl"


def _build(race):
    # other engineers edit harness/ concurrently: rsync may report "file vanished" (exit 24) - retry
    for attempt in range(4):
        try:
            return vlib.build_harness(race=race, cmd="c19")
        except subprocess.CalledProcessError as e:
            if attempt == 3:
                raise MachineryError(f"harness copy failed: {e}")
            time.sleep(1.5)


def _run_child(binary, args, timeout):
    """vlib.run_race_child with two additions needed here: the runtime's "fatal error: concurrent map ..." is located
    (innermost frame inside the repository), and a child that died is reported to the caller (restart) instead of
    being an error.  Returns (reports, rc, stderr_tail)."""
    e = vlib.goenv()
    e["GORACE"] = "halt_on_error=0 exitcode=66 history_size=5"
    e["VERIF_REPO"] = str(vlib.REPO)
    try:
        p = subprocess.run([str(binary)] + [str(a) for a in args], cwd=str(vlib.WORK), env=e, capture_output=True,
                           text=True, timeout=timeout)
    except subprocess.TimeoutExpired:
        raise MachineryError(f"race child timeout: {args}")
    reports = [r for r in vlib.parse_race_reports(p.stderr) if not r["site"].startswith("fatal:")]
    m = re.search(r"fatal error: (concurrent map[^\n]*)\n", p.stderr)
    if m:
        # several goroutines may throw at once: the stack of the running goroutine follows the last message
        g = re.search(r"\ngoroutine \d+[^\n]*\[running\]:\n(.*?)(?:\n\n|\Z)", p.stderr[m.start():], re.S)
        site = "(outside repo)"
        for fm in re.finditer(r"^(\S+)\(.*\n\s+(\S+?):\d+", g.group(1) if g else "", re.M):
            fn, path = fm.group(1), fm.group(2)
            if "livesim2/" in path or "livesim2/" in fn or str(vlib.REPO) in path:
                site = path.split("/")[-1] + ":" + fn.split(".")[-1].split("/")[-1]
                break
        reports.append({"site": "fatal:" + m.group(1) + "@" + site})
    if p.returncode not in (0, 66) and not m:
        raise MachineryError(f"race child {args} died rc={p.returncode} without a runtime fatal error:\n{p.stderr[-3000:]}")
    if p.returncode == 66 and not reports:
        raise MachineryError(f"race child exit 66 but no report parsed:\n{p.stderr[-3000:]}")
    return reports, p.returncode, p.stderr[-1500:]


def _spread(items, n):
    """n items spread evenly over the list (deterministic)."""
    if len(items) <= n:
        return list(items)
    return [items[(i * len(items)) // n] for i in range(n)]


def _dedupe(lines):
    seen, res = set(), []
    for x in lines:
        k = json.dumps(x["steps"])
        if k not in seen:
            seen.add(k)
            res.append(x)
    return res


def run(tier, replay=None):
    c = Check("C19", tier)
    quick = tier == "quick"
    c.rule = ("one scenario = one fresh receiver + the same uploads made sequentially in two orders (reference); "
              "(R) every terminal behaviour of the explorer's generator for 2 handlers (all interleavings of the gate-controlled "
              "steps get1/add/reg/m1/m2), simulated behaviours for 3 handlers and 2+2 handlers on two channels, and prefixes that "
              "reach a NoConflict violation, each forced in the real handler with the verif gates; (V) seeded configurations of "
              "2..8 tracks x 1..4 channels (video/audio/text, languages, with/without basic auth and per-representation config, "
              "Streams() / segment URLs, with/without Content-Length) uploaded with real goroutines, all inits at once or "
              "sender-like, repeated; (R) every behaviour of the start-transition explorer (snap/body of two in-flight uploads x "
              "the master segment that starts the channel) forced with gated request bodies on channels that WILL be shifted "
              "(repo test data zero_3.84s, awsMediaLiveScte35 with startNr 0), judged against the sequential runs of every subset "
              "of uploads placed before the start; the same transition with plain goroutines; (V) 2..4 channels in ONE storage "
              "directory (unshifted / number-shifted / time-shifted, channel-unique track names) fed for many rounds on a common "
              "clock with a look at every channel's MPDs after every round; (R) burst: the explorer states in which ALL handlers stand "
              "at the same label (add / reg, then trdatas_r), 3..10 tracks of CONFIGURED channels (credentials, startNr 1, per-representation "
              "language/role/label, a configuration file with thousands of other channels) that share AdaptationSets held at that gate "
              "and released at once, some of them media-first (init segment on disk), while uploads with wrong / no credentials are "
              "repeated; (V) live: 8..12 tracks of one channel, segments of 2..4 chunks, all handlers held inside the chunk callback "
              "and released staggered, several rounds, every upload bounded by 12 s; (R) overlap: a receiver restarted on storage that holds init_org of every track, "
              "two media uploads of ONE track overlapping while the first loads init_org from slow storage (a named pipe delivers the bytes when the "
              "second request has arrived), order of the two segments fixed by a gated body; everything in a child built with -race; distinct = distinct schedules + distinct "
              "concurrent configurations; every scenario has >= 2 concurrent first uploads")
    c.assumptions = ["all uploads are well-formed and correctly authenticated by construction, so any answer other than 200 is a lost upload",
                     "the sequential outcome of these uploads is order-independent modulo AdaptationSet ids/order and Representation order "
                     "(checked on every scenario: clause M.ref_order_independent is a machinery error, not a verdict); Representation@bandwidth "
                     "is not compared (the receiver estimates it from the segments buffered at that moment)",
                     "media segments of unshifted channels carry sequence number = time/duration so that the receiver stores them unchanged; "
                     "for channels that renumber / re-time, 'stored' = a new or rewritten file of the track's own directory carries the "
                     "uploaded mdat payload",
                     "sequential reference = every upload processed completely (channel goroutine included) before the next one",
                     "rounds scenarios: shifted channels tune in sequentially (rounds 0,1), the transition itself is the subject of the "
                     "start scenarios",
                     "an upload that is not answered within 12 s is unanswered (C19.progress); the run is abandoned, after two such runs "
                     "the driver stops (every one costs the bound)",
                     "race clause: Go race detector / runtime concurrent-map check (sound, not complete); a child killed by the runtime is "
                     "restarted after the scenario that killed it",
                     "steps on the channel table are forced exactly; stream-table / track-table gate releases are not followed by a wait, "
                     "so that the harness adds no happens-before edge between the two accesses"]
    c.trusted = ["Go race detector", "harness/drive/c19 recorder (storage walk, dash-mpd parse of manifest.mpd)", "TLC", "verif gates in /repo (build tag verif)"]
    wk = 4
    nsim3, nsim22, nconf = (40, 30, 24) if quick else (1500, 1000, 400)
    # ReceiverConcImpl_fixed_<tier>.cfg (Fixed = TRUE) is the model of the CURRENT code: all invariants must hold.
    # ReceiverConcImpl_cex_*.cfg (Fixed = FALSE) document the design as written before commits 31ea68b / 50199e3 /
    # f290dd1: each must still produce its counterexample.  The generator keeps Fixed = FALSE: those are the
    # schedules that broke the old code, and the gates they drive are unchanged.
    jobs = [
        (IMPL, "ReceiverConcImpl_cex_onechannel.cfg", dict(workers=wk, expect="violation", expect_violated=("OneChannel",), coverage=False)),
        (IMPL, "ReceiverConcImpl_cex_registered.cfg", dict(workers=wk, expect="violation", expect_violated=("MediaOK", "Registered"), coverage=False)),
        (IMPL, "ReceiverConcImpl_cex_noconflict.cfg", dict(workers=wk, expect="violation", expect_violated=("NoConflict",), coverage=False)),
        (IMPL, f"ReceiverConcImpl_fixed_{tier}.cfg", dict(workers=wk, required_actions=("add", "s1", "reg", "m2"))),
        (GEN, "ReceiverConcGen_logic2.cfg", dict(workers=1, coverage=False)),
        (GEN, "ReceiverConcGen_conflict2.cfg", dict(workers=1, coverage=False)),
        (GEN, "ReceiverConcGen_logic3sim.cfg", dict(workers=1, coverage=False, simulate=f"num={nsim3}", depth=100, seed_arg=c.seed)),
        (GEN, "ReceiverConcGen_logic22sim.cfg", dict(workers=1, coverage=False, simulate=f"num={nsim22}", depth=100, seed_arg=c.seed + 1000)),
    ]
    # channel START transition: the handler's view of the master values (one snapshot = the code as it is)
    jobs += [("ReceiverConcStart", "ReceiverConcStart_gen.cfg", dict(workers=1, coverage=False)),
             ("ReceiverConcStart", "ReceiverConcStart_cex_splitread.cfg", dict(workers=1, expect="violation",
                                                                              expect_violated=("ViewConsistent", "NoLoss"), coverage=False))]
    # registration of a track from disk (existing channel) with several requests of ONE track in flight: the code as it is
    # (one critical section) holds MediaOK; the variant that loads init_org outside streamsMu must give its counterexample,
    # which the driver's overlap scenarios force on the real code
    jobs += [("ReceiverRegImpl", "ReceiverRegImpl_atomic.cfg", dict(workers=1, required_actions=("lk", "chk", "load", "ulk", "med"))),
             ("ReceiverRegImpl", "ReceiverRegImpl_cex.cfg", dict(workers=1, expect="violation", expect_violated=("MediaOK",), coverage=False))]
    n_reg = len(jobs) - 2
    if not quick:
        jobs.append((IMPL, "ReceiverConcImpl_design_full.cfg", dict(workers=wk, required_actions=("add", "s3", "reg", "m3"))))
    res = c.models(jobs)
    for r, name, want in ((res[0], "OneChannel", ("OneChannel",)), (res[1], "Registered", ("MediaOK", "Registered")),
                          (res[2], "NoConflict", ("NoConflict",))):
        if r.status != "invariant" or not set(r.violated) & set(want):
            raise MachineryError(f"explorer: the design counterexample for {name} was not found ({r.status} {r.violated})")
    c.extra["design_counterexamples"] = {"OneChannel": res[0].summary(), "Registered": res[1].summary(), "NoConflict": res[2].summary()}
    c.extra["fixed_design_model"] = res[3].summary()
    if res[n_reg + 1].status != "invariant" or "MediaOK" not in res[n_reg + 1].violated:
        raise MachineryError(f"explorer: the counterexample of ReceiverRegImpl (init_org loaded outside streamsMu) was not found "
                             f"({res[n_reg + 1].status} {res[n_reg + 1].violated})")
    c.extra["registration_from_disk_model"] = {"atomic": res[n_reg].summary(), "split_counterexample": res[n_reg + 1].summary()}
    if res[9].status != "invariant":
        raise MachineryError(f"explorer: split-read counterexample of the start transition not found ({res[9].status})")
    sgens = _dedupe(vlib.tlc_printed_json(res[8], "GENS"))
    if len(sgens) < 20:
        raise MachineryError(f"start-transition generator produced {len(sgens)} behaviours")
    logic2 = _dedupe(vlib.tlc_printed_json(res[4], "GEN"))
    conflicts = _dedupe(vlib.tlc_printed_json(res[5], "GENC"))
    sim3 = _dedupe(vlib.tlc_printed_json(res[6], "GEN"))
    sim22 = _dedupe(vlib.tlc_printed_json(res[7], "GEN"))
    if len(logic2) < 100 or not conflicts or not sim3 or not sim22:
        raise MachineryError(f"generator produced too few behaviours: {len(logic2)} {len(conflicts)} {len(sim3)} {len(sim22)}")
    # conflict prefixes: one representative per (conflicting tables/kinds, last step of each handler), spread
    cls = {}
    for x in conflicts:
        last = {}
        for h, lbl in x["steps"]:
            last[h] = lbl
        cls.setdefault((json.dumps(sorted(x["kinds"])), x["raced"], json.dumps(sorted(last.items()))), []).append(x)
    reps_ = [v[0] for _, v in sorted(cls.items())]
    more = [y for _, v in sorted(cls.items()) for y in v[1:]]
    chosen_conf = (reps_ + _spread(more, max(0, nconf - len(reps_))))[:max(nconf, 0)] if len(reps_) < nconf else _spread(reps_, nconf)
    for x in chosen_conf:
        x["conflict"] = True
    gens = logic2 + sim3 + sim22 + chosen_conf
    genf = c.work / "gen.jsonl"
    with open(genf, "w") as f:
        for g in gens:
            f.write(json.dumps(g) + "\n")
    sgenf = c.work / "sgen.jsonl"
    with open(sgenf, "w") as f:
        for g in sgens:
            f.write(json.dumps(g) + "\n")
    c.extra["generated"] = {"start_transition_behaviours_exhaustive": len(sgens), "logic_2handlers_exhaustive": len(logic2), "logic_3handlers_simulated": len(sim3),
                            "logic_2plus2_two_channels_simulated": len(sim22), "conflict_prefixes_total": len(conflicts),
                            "conflict_classes": len(cls), "conflict_prefixes_replayed": len(chosen_conf),
                            "predicting_two_objects": sum(1 for g in logic2 + sim3 + sim22 if max(g["createdA"], g["createdB"]) > 1)}
    c.exhaustive = False

    # (R)+(V): real code in a -race child; the Go runtime may kill the child ("fatal error: concurrent map ..."):
    # the trace holds whole scenarios only, the child is restarted after the scenario that killed it
    drive = _build(True)
    shapes, reps = (10, 3) if quick else (60, 8)
    nsets, nstartconc, nrounds, roundlen = (2, 4, 6, 14) if quick else (4, 25, 40, 24)
    nbursts, burstreps = (3, 5) if quick else (20, 10)
    nlives, livelen = (3, 4) if quick else (20, 6)
    noverlaps = 6 if quick else 40
    total = len(gens) + len(sgens) * nsets + nstartconc * nsets + shapes * reps + nrounds + nbursts * 2 * burstreps + nlives + noverlaps
    max_children = 40 if quick else 400
    base = ["-gen", genf, "-sgen", sgenf, "-startsets", nsets, "-startconc", nstartconc, "-rounds", nrounds, "-roundlen", roundlen,
            "-bursts", nbursts, "-burstreps", burstreps, "-lives", nlives, "-livelen", livelen, "-overlaps", noverlaps,
            "-seed", c.seed, "-shapes", shapes, "-reps", reps, "-tmp", c.work]
    parts, sites, crashes, start = [], {}, [], 0
    while start < total and len(parts) < max_children:
        part = c.work / f"part{len(parts)}.ndjson"
        reports, rc, tail = _run_child(drive, base + ["-from", start, "-out", part], timeout=1500 if quick else 3000)
        parts.append(part)
        done = sum(1 for ln in open(part) if '"ev":"end"' in ln) if part.exists() else 0
        fatal = [r["site"] for r in reports if r["site"].startswith("fatal:")]
        for r in reports:
            if not r["site"].startswith("fatal:"):
                sites[r["site"]] = sites.get(r["site"], 0) + 1
        if rc in (0, 66):
            start = total
            break
        if not fatal:
            raise MachineryError(f"driver child died rc={rc} without a runtime fatal error:\n{tail}")
        crashes.append({"sc": start + done, "site": fatal[0]})
        start += done + 1
    skipped = total - start if start < total else 0
    trace = c.work / "c19.ndjson"
    with open(trace, "w") as out:
        for p in parts:
            if p.exists():
                out.write(open(p).read())
        for site, n in sorted(sites.items()):
            out.write(json.dumps({"ev": "race", "site": site, "reports_in_children": n}) + "\n")
        for cr in crashes:
            out.write(json.dumps({"ev": "race", "site": cr["site"], "sc": cr["sc"], "child_killed": True}) + "\n")
    c.extra["race_child"] = {"children": len(parts), "killed_by_runtime": len(crashes), "scenarios_skipped": skipped + len(crashes),
                             "race_sites": sites, "crashes": crashes[:10]}

    r, lines = c.validate_trace("ReceiverConc_Trace", trace, timeout=3000)
    events = vlib.read_ndjson(trace)
    # scenario context of every line + statistics measured on the trace
    hdr_at, objs, panics = {}, {}, {}
    cur = None
    kinds, distinct, agree, samples, seen_ev = {}, set(), {"yes": 0, "fixed": 0, "no": 0, "aborted": 0}, [], set()
    for i, e in enumerate(events, 1):
        ev = e["ev"]
        seen_ev.add(ev if ev != "up" else "up:" + e["seg"])
        if ev == "hdr":
            cur = e
            kinds[e["kind"]] = kinds.get(e["kind"], 0) + 1
            distinct.add((e["kind"], e.get("variant"), e.get("steps") or (e["shape"], e["sender"])))
            if len([s for s in samples if s["kind"] == e["kind"]]) < 2:
                samples.append({k: e[k] for k in ("kind", "variant", "nch", "ntr", "auth", "repcfg", "sender", "steps", "rounds", "gate") if k in e and e[k] != ""})
        elif ev == "chan_created" and cur is not None:
            objs[(cur["sc"], e["ch"])] = objs.get((cur["sc"], e["ch"]), 0) + 1
        elif ev == "up" and cur is not None and e["seg"] == "init" and e["status"] == 500 and e.get("body") == "":
            panics[(cur["sc"], e["ch"])] = panics.get((cur["sc"], e["ch"]), 0) + 1
        elif ev == "end":
            a = e.get("agree", "na").split(":")[0]
            if a in agree:
                agree[a] += 1
                if a in ("no", "aborted") and len(c.fidelity) < 8:
                    c.fidelity.append(f"replay sc={cur['sc']}: {e['agree']}"[:400])
        if ev == "race":
            cur = None
        hdr_at[i] = cur
    for f in vlib.bad_to_failures(r, events):
        if f["clause"].startswith("M."):
            raise MachineryError(f"oracle assumption broken: {json.dumps(f)[:1500]}")
        h = hdr_at.get(f["line"]) or {}
        for k in ("kind", "variant", "sc", "nch", "ntr", "auth", "repcfg", "sender", "pred_created", "steps"):
            if k in h:
                f.setdefault(k, h[k])
        if h:
            per = [n for (sc, ch), n in objs.items() if sc == h["sc"] and (f.get("ch") in (None, ch))]
            f["chan_objects"] = max(per) if per else 0
            # init uploads of this channel answered 500 with an empty body = panic caught by the router's Recoverer
            f["init_panics"] = sum(n for (sc, ch), n in panics.items() if sc == h["sc"] and (f.get("ch") in (None, ch)))
        try:
            d = json.loads(f.get("detail") or "null")
            if isinstance(d, dict):
                for k in ("files_equal", "mpd_equal", "tl_equal", "status_equal", "unprocessed", "quiesced"):
                    if k in d:
                        f[k] = d[k]
        except ValueError:
            pass
        for k in ("files", "mpd", "tracks", "shape", "tl", "own", "ids", "st", "pre"):
            f.pop(k, None)
        c.add_failure(f)
    # non-vacuity of the binding (a verdict of violation does not depend on it: a driver that met unanswered uploads
    # stops early, see the note event stopped_early)
    if not c.failures:
        need = {"hdr", "ref", "chan_created", "up:init", "up:media", "process", "final", "end", "mpdcheck"}
        if not need <= seen_ev:
            raise MachineryError(f"vacuity: trace lacks events {sorted(need - seen_ev)}")
        if not crashes:
            for kind, least in (("replay", 20), ("start", 20), ("rounds", 1), ("burst", 10), ("live", 1), ("conc", 5), ("overlap", 2)):
                if kinds.get(kind, 0) < least:
                    raise MachineryError(f"vacuity: only {kinds.get(kind, 0)} scenarios of kind {kind}: {kinds}")
        creds = {e.get("cred") for e in events if e["ev"] == "up"}
        if not {"ok", "wrong", "none"} <= creds:
            raise MachineryError(f"vacuity: uploads with credentials {sorted(creds)} only")
    c.traces = sum(kinds.values())
    c.events = lines
    c.distinct_nontrivial = len(distinct)
    c.samples = samples
    c.extra["scenarios"] = kinds
    c.extra["replay_vs_explorer"] = dict(agree, _doc="yes: channel objects and failed first media uploads as the explorer (design as "
                                         "written, Fixed=FALSE) predicts; fixed: as the explorer predicts with Fixed=TRUE")
    for e in events:
        if e["ev"] == "note":
            c.extra[e["what"]] = e["result"]
    return c.finish()

"""C04 - each segment goes too-early -> available -> gone at exactly the right instants."""
import vlib
from vlib import Check


def run(tier, replay=None):
    c = Check("C04", tier)
    c.rule = ("one event per request; a sweep = one fixed segment URL requested at increasing instants: availability instant "
              "-2..+2 ms, end of the time-shift window -2..+2 ms, +10 s margin -2..+2 ms, +11 s, +1 h, AST-1..AST+1 and seeded "
              "instants in between; scenario = (asset, representation kind video/text/image, addressing mode, startNumber, start "
              "time, tsbd in {0,1,60,172800}, ato in {0, 1/4 segment, segment-40ms, 1.5 segments, inf}); distinct = distinct "
              "(scenario, segment index) sweeps")
    c.assumptions = ["after the time-shift window both 200 and 410 are accepted (the property fixes only the minimum availability)",
                     "the remaining-ms figure in the 425 body may be rounded either way (difference < 1 ms)",
                     "for requests before availabilityStartTime only the status 425 is demanded"]
    c.trusted = ["asset generator ground truth / independent VoD parse", "TLC"]
    c.model("LiveTimeline_MC", f"LiveTimeline_{tier}.cfg", workers=4, required_actions=("Tick",))
    if tier == "thorough":
        # unbounded: contiguity across the loop wrap, monotone availability and status, and the pair arithmetic every
        # timeline trace specification relies on (TLAPS, for any N, durations > 0, any integer loop count)
        c.proofs(["time_tlaps", "livetimeline_tlaps"])
    drive = vlib.build_harness(cmd="c04")
    trace = c.work / "c04.ndjson"
    args = ["-out", trace, "-work", c.work, "-seed", c.seed] + (["-thorough"] if tier == "thorough" else [])
    st = vlib.run_driver(drive, args, timeout=3000)
    r, lines = c.validate_trace("LiveTimeline_Trace", trace, timeout=3000)
    events = vlib.read_ndjson(trace)
    hdr = None
    hdr_at = {}
    for i, e in enumerate(events, 1):
        if e["ev"] == "hdr":
            hdr = e
        hdr_at[i] = hdr
    for f in vlib.bad_to_failures(r, events):
        h = hdr_at.get(f["line"]) or {}
        for k in ("asset", "rep", "kind", "mode", "snr", "ast", "tsbd", "ato", "cfg", "TS"):
            f.setdefault(k, h.get(k))
        c.add_failure(f)
    c.traces += st["scenarios"]
    c.events += lines
    c.distinct_nontrivial = st["distinct"]
    c.samples = st.get("samples", [])
    c.extra["requests"] = st["requests"]
    return c.finish()

"""C03 - audio is re-segmented to follow video boundaries without loss or duplication."""
import vlib
from vlib import Check, MachineryError


def _ceil_div(a, b):
    return -((-a) // b)


def _derive(h, e):
    """Classification fields of a failing observation (never part of the verdict): computed with Python's unbounded
    integers from the scenario header, they name the input class of the request for known_findings matching."""
    out = {}
    try:
        N, dur, vod0, TSv, TSa, F, A = h["N"], h["dur"], h["vod0"], h["TS"], h["TSa"], h["F"], h["A"]
        L = sum(dur)
        if e.get("ev") == "mpd":
            k, i, span = e["k0"], e["i0"], max(e.get("nv", 1), 1)
        else:
            k, i, span = e["k"], e["i"], 1
        sv = k * L + vod0 + sum(dur[:i])
        ev_ = sv + dur[i]
        far_end = sv + span * max(dur)
        # products formed by calcAudioTimeFromRef / findRefSegMetaFromTime in uint64
        out["u64_overflow"] = bool(max(ev_, far_end) * TSa >= 2 ** 64 or _ceil_div(ev_ * TSa, TSv) * TSv >= 2 ** 64)
        if e.get("ev") == "seg":
            up = lambda x: _ceil_div(x * TSa, TSv * F) * F   # noqa: E731
            base = up((sv // L) * L)
            p0 = (up(sv) - base) // F
            p1 = p0 + (up(ev_) - up(sv)) // F
            out["loop_pos_first_frame"], out["loop_pos_end"] = p0, p1
            out["starts_in_padding"] = bool(p0 >= A)
            inside, first = False, 0
            for c in h.get("asegs", []):
                if first < p0 and p1 < first + c and p0 < first + c:
                    inside = True
                first += c
            out["inside_one_vodseg"] = inside
    except Exception as ex:  # classification only
        out["derive_error"] = repr(ex)
    return out


def run(tier, replay=None):
    c = Check("C03", tier)
    c.rule = ("one event per served audio segment (request by $Number$, by $Number$ under SegmentTimeline, and by $Time$ with the value "
              "a client computes; whole, and low-latency chunked with ato_ + chunkdur_ where all fragments of the body are concatenated and "
              "compared sample by sample with the whole segment) or per MPD fetched at the same instant; scenario = (asset, addressing "
              "mode, startNumber, tsbd, start time, availabilityTimeOffset/chunk duration); assets: bundled AAC-1024 (2 s / 6 s / 8 s segments) and AC-3-1536, generated layouts with audio grid equal to / "
              "different from the video grid, VoD audio shorter / longer than the video loop, 30000/1001 and 24000/1001 video, 12.8 kHz and "
              "10 MHz video timescales, reference track not starting at 0; indices: consecutive runs from 0 over all phases of the audio "
              "grid (M+1 loops), around wraps 10 and 1000, around a wrap at a wall-clock in 2025, seeded indices; distinct = distinct "
              "(asset, mode, startNumber, n)")
    c.assumptions = ["a request for audio segment n at an instant when reference segment n is available must be answered 200 (C03.served)",
                     "VoD frames are identified by payload digest; frames with identical payloads are interchangeable",
                     "when the reference track does not start at media time 0 the text does not fix where a loop of the looped source "
                     "begins: then C03.frames only demands consecutive VoD frames / repeated last frame / restart near the beginning",
                     "the VoD audio track starts at decode time 0 (all bundled and generated assets)"]
    c.trusted = ["asset generator ground truth / independent VoD parse (harness/project)", "per-frame payload digests", "TLC"]
    wk = 4
    jobs = [("AudioReseg_MC", f"AudioReseg_{tier}.cfg", dict(workers=wk, timeout=1500, required_actions=("NextSeg",))),
            # implementation-shaped explorer of calcAudioSegRecipe/createAudioSeg as in the CURRENT code: agrees with the oracle
            ("AudioResegImpl_MC", f"AudioResegImpl_{tier}.cfg", dict(workers=wk, timeout=1500, required_actions=("NextSeg",))),
            ("AudioResegImpl_MC", "AudioResegImpl_vod0.cfg", dict(workers=wk, timeout=1500)),
            ("AudioResegImpl_MC", "AudioResegImpl_gap.cfg", dict(workers=wk, timeout=1500))]
    if tier == "thorough":
        # design counterexamples of the ORIGINAL algorithm (before /repo commits 9a9819e, 9a9f787), kept as documentation
        jobs += [("AudioResegImpl_MC", "AudioResegImpl_orig_endidx.cfg", dict(workers=1, expect="violation", expect_violated=("Served",), coverage=False)),
                 ("AudioResegImpl_MC", "AudioResegImpl_orig_gap.cfg", dict(workers=1, expect="violation", expect_violated=("Served",), coverage=False))]
    # (M) runs concurrently with build / drive / trace validation below (joined before the verdict)
    from concurrent.futures import ThreadPoolExecutor
    pool = ThreadPoolExecutor(max_workers=1)
    models_fut = pool.submit(c.models, jobs, 4)
    c.exhaustive = False

    drive = vlib.build_harness(cmd="c03")
    trace = c.work / "c03.ndjson"
    args = ["-out", trace, "-work", c.work, "-seed", c.seed] + (["-thorough"] if tier == "thorough" else [])
    st = vlib.run_driver(drive, args, timeout=3000)
    # scenarios are independent (the trace specification resets its state at every header): validate chunks concurrently
    r, lines = c.validate_trace_parallel("AudioReseg_Trace", trace, chunks=4 if tier == "quick" else 6, timeout=3000)
    events = vlib.read_ndjson(trace)
    hdr, hdr_at = None, {}
    nseg = 0
    for i, e in enumerate(events, 1):
        if e["ev"] == "hdr":
            hdr = e
        elif e["ev"] == "seg" and e["st"] == 200:
            nseg += 1
        hdr_at[i] = hdr
    # (vacuity is judged only when nothing failed: a broken server may legitimately serve nothing of some kind)
    if not r.bad and (nseg == 0 or st.get("frames", 0) == 0 or st.get("mpds", 0) == 0 or st.get("ll_multi_fragment", 0) == 0):
        raise MachineryError(f"vacuous run: {nseg} served segments, {st.get('frames')} frames, {st.get('mpds')} MPDs, "
                             f"{st.get('ll_multi_fragment')} chunked bodies with more than one fragment")
    for f in vlib.bad_to_failures(r, events):
        if f["clause"].startswith("hdr."):
            raise MachineryError(f"driver/header inconsistency (clause {f['clause']}): {str(f)[:600]}")
        h = hdr_at.get(f["line"]) or {}
        for k in ("asset", "rep", "mode", "snr", "ast", "tsbd", "cfg", "ll", "TS", "TSa", "F", "A", "M", "vod0", "asegs", "dur"):
            f.setdefault(k, h.get(k))
        f.pop("cls", None)
        f.pop("at", None)
        f.update(_derive(h, events[f["line"] - 1]))
        c.add_failure(f)
    res = models_fut.result()      # MachineryError of a model job propagates here
    pool.shutdown()
    if tier == "thorough":
        c.extra["design_counterexamples_original_algorithm"] = {"end_index_inside_one_vod_segment": res[4].violated,
                                                                "segment_after_end_of_vod_audio": res[5].violated}
    c.traces += st["scenarios"]
    c.events += lines
    c.distinct_nontrivial = st["distinct"]
    c.samples = st.get("samples", [])
    for k in ("requests", "segments_served", "frames", "ll_segments", "ll_multi_fragment", "ll_fragments", "mpds", "mpd_audio_entries", "assets"):
        c.extra[k] = st.get(k)
    return c.finish()

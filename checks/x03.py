"""X03 (extra specification) - an implementation-shaped TLA+ explorer of the live timeline core of livesim2 (segment
lookup by number / by time, SegmentTimeline generation, startNumber, publishTime), model-checked against the existing
oracle of C01/C02/C04/C05 and bound to the real code by replaying its predictions.
Property text: top of spec/LiveTimelineImplOps.tla."""
import json
import re
import vlib
from vlib import Check, MachineryError

MOD = "LiveTimelineImpl_MC"


def run(tier, replay=None):
    c = Check("X03", tier)
    c.rule = ("(M) every sampled instant of every small configuration (layout x tsbd x ato x startNumber x start time): the "
              "transcription's answer to every segment request (by number, by time) and its timeline / startNumber / publishTime "
              "judged by the oracle operators of LiveTimelineOps / LiveMpdOps; (R) the GEN predictions of the explorer (both sides of "
              "every breakpoint of every request + a seeded thin sample) replayed into the real server over generated VoD assets with "
              "exactly those layouts; (V) seeded layouts at realistic timescales (90000, 30000/1001, 12800, 48000, 600 ...) requested "
              "around their breakpoints, prediction evaluated by the trace specification from the header; distinct = distinct "
              "(configuration, request kind, number/time, instant); an evaluation = one trace event")
    c.assumptions = ["rep.Segments of the asset loader = the VoD segments' decode times (C15's subject)",
                     "float64 seconds of the code are transcribed into exact integer arithmetic in 1/(1000*TS) s; instants at which the "
                     "float result depends on rounding noise (exact end of the served window, x.5 ms roundings) are flagged and not judged",
                     "the 1 us comparison tolerance is transcribed exactly; it is inert for timescales below 10^6/gcd(1000,TS)",
                     "vod0 < loop duration (domain of the oracle's IdxOfStart); one video representation, no stop time, one period",
                     "ato_inf with a SegmentTimeline URL is a refused configuration (400): fidelity only, no oracle clause",
                     "a negative ?nowMS= is not replayed (model level only)"]
    c.trusted = ["harness/assetgen (layout = ground truth by construction)", "harness/project ParseMedia / ParseMPD (independent parse)",
                 "harness/drive/x03 (URL construction, clamping of absurd values)", "TLC"]
    wk = 4
    # the GEN job gets the seed (thin sample away from the breakpoints)
    gencfg = c.work / f"LiveTimelineImpl_gen_{tier}.cfg"
    gencfg.write_text(re.sub(r"Seed = \d+", f"Seed = {c.seed % 11}", (vlib.SPEC / "mc" / f"LiveTimelineImpl_gen_{tier}.cfg").read_text()))
    tmo = 600 if tier == "quick" else 1500
    jobs = [(MOD, f"LiveTimelineImpl_{tier}.cfg", dict(workers=wk, timeout=tmo, coverage=False)),
            (MOD, f"LiveTimelineImpl_vod0_{tier}.cfg", dict(workers=wk, timeout=tmo, coverage=False)),
            (MOD, str(gencfg), dict(workers=wk, timeout=tmo, coverage=False)),
            # history (Fix = FALSE = before 27fa7f8 / 52d2ae2): the vod0 deviations of the code as it was, documented counterexamples;
            # window_start: the present code (open finding C05-window-start)
            (MOD, "LiveTimelineImpl_cex_vod0_edge.cfg", dict(workers=1, expect="violation", expect_violated=("InvTimelineEdgeAll",), coverage=False)),
            (MOD, "LiveTimelineImpl_cex_vod0_served.cfg", dict(workers=1, expect="violation", expect_violated=("InvListedServedAll",), coverage=False)),
            (MOD, "LiveTimelineImpl_cex_vod0_time.cfg", dict(workers=1, expect="violation", expect_violated=("InvLookupTimeAll",), coverage=False)),
            (MOD, "LiveTimelineImpl_cex_window_start.cfg", dict(workers=1, expect="violation", expect_violated=("ImplPtIdentifies",), coverage=False)),
            # observation (no oracle clause): a sub-ms availability instant right after AST is rounded down to AST
            (MOD, "LiveTimelineImpl_cex_pt_subms.cfg", dict(workers=1, expect="violation", expect_violated=("ImplPtIdentifiesEdgeAll",), coverage=False))]
    # history: with the restricting predicates the pre-fix transcription agreed with the oracle
    if tier == "thorough":
        jobs.append((MOD, "LiveTimelineImpl_hist_vod0_quick.cfg", dict(workers=wk, timeout=tmo, coverage=False)))
    nfix = len(jobs)
    wit = ["NeverGone", "NeverMulti", "NeverRepeat", "NeverClip"]
    jobs += [(MOD, f"LiveTimelineImpl_witness_{w}.cfg", dict(workers=1, expect="violation", expect_violated=(w,), coverage=False)) for w in wit]
    res = c.models(jobs, parallel=4)
    # (TLC's -coverage runs out of memory on these recursive operators: vacuity is judged by the state count instead)
    for r in res[:2]:
        if r.depth < 20 or r.distinct < 1000:
            raise MachineryError(f"model vacuity: {r.distinct} states, depth {r.depth}")
    for r, name in zip(res[3:8], ("InvTimelineEdgeAll", "InvListedServedAll", "InvLookupTimeAll", "ImplPtIdentifies", "ImplPtIdentifiesEdgeAll")):
        if r.status == "ok":
            c.fidelity.append(f"documented counterexample {name} no longer found by the model")
    for r, name in zip(res[nfix:], wit):
        if name not in r.violated:
            raise MachineryError(f"model vacuity: witness {name} not reached")
    c.extra["design_counterexamples"] = {"vod0_edge": res[3].violated, "vod0_listed_not_served": res[4].violated,
                                                         "vod0_time_lookup": res[5].violated, "window_start_publishTime": res[6].violated,
                                                         "sub_ms_publishTime_rounding": res[7].violated}
    c.exhaustive = True   # over the enumerated configuration sets and sampling schedules
    gen = vlib.tlc_printed_json(res[2], "GEN")
    if not gen:
        raise MachineryError("explorer produced no GEN lines")
    genf = c.work / "gen.jsonl"
    with open(genf, "w") as f:
        for g in gen:
            f.write(json.dumps(g) + "\n")
    # (R)/(V) real code
    drive = vlib.build_harness(cmd="x03")
    trace = c.work / "x03.ndjson"
    nseed = 8 if tier == "quick" else 100
    st = vlib.run_driver(drive, ["-out", trace, "-work", c.work / "drv", "-gen", genf, "-seed", c.seed, "-n", nseed, "-par", 6])
    r, lines = c.validate_trace_parallel("LiveTimelineImpl_Trace", trace, chunks=8 if tier == "quick" else 12, timeout=1500)
    events = vlib.read_ndjson(trace)
    hdr_at, cur = {}, None
    for i, e in enumerate(events, 1):
        if e["ev"] == "hdr":
            cur = e
        hdr_at[i] = cur
    nfid = 0
    for f in vlib.bad_to_failures(r, events):
        h = hdr_at.get(f["line"]) or {}
        for k in ("vod0", "TS", "tsbd", "ato", "snr", "ast", "src", "N", "loopMS"):
            f[k] = h.get(k)
        f["dur"] = str(h.get("dur"))
        o = events[f["line"] - 1].get("o", {})
        f["ost"] = o.get("st")
        if f["clause"].startswith("X03.fidelity"):
            nfid += 1
        c.add_failure(f)
    if nfid:
        c.fidelity.append(f"{nfid} replayed cases: the real server differs from the transcription")
    c.traces += st["scenarios"]
    c.events += lines
    c.distinct_nontrivial = st["distinct"]
    c.samples = st.get("samples", [])
    for k in ("gen_scenarios", "seeded_scenarios", "layouts", "by_number", "by_time", "mpds", "status", "max_listed_segments",
              "mpds_with_several_S", "mpds_with_r", "empty_timelines", "skipped_negative_now"):
        c.extra[k] = st.get(k)
    c.extra["gen_lines"] = len(gen)
    # non-vacuity of the replay, judged on the PREDICTIONS that were replayed (not on what the server answered)
    pst = {x["r"]["st"] for g in gen if g["now"] >= 0 for x in g["nr"] + g["tm"]}
    tls = [t for g in gen if g["now"] >= 0 for t in g["tl"]]
    shapes = {"several_S": sum(len(t["S"]) > 1 for t in tls), "r": sum(any(e[3] > 0 for e in t["S"]) for t in tls),
              "empty": sum(t["st"] == 200 and not t["S"] for t in tls), "before_ast": sum(t["st"] == 425 for t in tls)}
    c.extra["predicted_status_classes"] = sorted(pst)
    c.extra["predicted_mpd_shapes"] = shapes
    if not {200, 425, 410, 404, 500, 400} <= pst or not all(shapes.values()):
        raise MachineryError(f"replay vacuity: predicted status classes {sorted(pst)}, MPD shapes {shapes}")
    return c.finish()

"""C07 - livesim2 responses are a pure function of (URL, time) and race-free."""
import json
from concurrent.futures import ThreadPoolExecutor

import vlib
from vlib import Check, MachineryError

# kinds of requests that must have been answered with 200 at least once (non-vacuity of the pool)
NEEDED_KINDS = ("mpd", "init", "media", "audio", "text", "thumb", "subs", "drm-init", "drm-media", "drm-audio", "chunked", "patch")


def split_parts(path, tolerate_truncation=False):
    """ndjson trace -> {part: [lines]} (header lines dropped)."""
    parts, cur = {}, None
    with open(path) as f:
        for ln in f:
            if not ln.strip():
                continue
            try:
                e = json.loads(ln)
            except json.JSONDecodeError:
                if tolerate_truncation:
                    break
                raise MachineryError(f"{path}: bad JSON line")
            if e.get("ev") == "hdr":
                cur = e["part"]
                parts.setdefault(cur, [])
                continue
            if cur is None:
                raise MachineryError(f"{path}: event before the first header")
            parts[cur].append(ln if ln.endswith("\n") else ln + "\n")
    return parts


def run(tier, replay=None):
    c = Check("C07", tier)
    thorough = tier == "thorough"
    c.rule = ("request pool derived from the server's own MPDs: (asset x URL configuration x instant) groups over the bundled and the "
              "generated VoD assets - Number / SegmentTimeline($Time$) / SegmentTimeline($Number$) MPDs, each plain and with periods_, "
              "patch_, ato_, generated stpp/wvtt subtitles, eccp cbcs/cenc, CPIX drm_, scte35_, low-latency chunkdur_ - and per group the "
              "MPD (3 instants), init + newest media segments of every representation (video, re-segmented audio, stpp text, thumbnails, "
              "generated subtitles; encrypted init + media), patch documents (/patch/..mpp?publishTime=), too-early / gone / unknown "
              "requests; every request served by: discovery instance, ONE long-running instance (pool order, seeded permutation, twice in a "
              "row, 32-way concurrent seeded mix, again sequentially), fresh instances, an instance writing representation metadata, an "
              "instance loaded from that metadata directory - which per run also holds files that parse but are refused by the loader's later "
              "checks: the file of a legal asset with a gap in its SegmentTimeline (g_c07gap) and two stale files (endTime of one segment "
              "edited, one of them testpic_2s V300/A48) -, and a second process (built with -race: 28+4-way mix with urlgen/assets//reqcount//metrics "
              "pages, concurrent fresh instance, ingest API create/get/step/delete from unsynchronised goroutines); ONE memo key->digest over "
              "all of them; distinct = request keys answered in >= 4 instance/phase combinations")
    c.assumptions = [
        "digest = status | Content-Type | sha256(body); other response headers (request ids, dates, limiter counters, Expires) are not compared",
        "key = URL (path + query without nowMS) '@' nowMS; all requests use the Host header example.com (the MPD's BaseURL/Location depend on Host by design)",
        "urlgen/assets pages, /reqcount, /metrics, /vod and the ingest API are not functions of (URL, time) by design: race clause only",
        "race clause: Go race detector (sound, not complete) + runtime 'concurrent map' check on a child process built with -race; the "
        "GET-report / session-append overlap of the model's counterexample is forced through the gates ingest:get_report / ingest:sess_report "
        "(both goroutines held, released together: unordered for the detector), all other overlaps are left to unsynchronised goroutines; "
        "cmafIngesterMgr.Close() is not reachable by a request and is covered by the model only",
    ]
    c.trusted = ["Go race detector", "harness/drive/c07 recorder (sha256 digests, partition by key hash)", "checks/c07.py merge of the two "
                 "processes' traces (line concatenation per part)", "TLC"]
    wk = c.work
    n = 10000 if not thorough else 100000

    # ---- builds
    drive = vlib.build_harness(cmd="c07")
    drive_race = vlib.build_harness(race=True, cmd="c07")

    # ---- (M) model jobs (run while the drivers run)
    def models():
        J = lambda cfg, **kw: ("IngestMgrImpl", f"IngestMgrImpl_{cfg}.cfg", dict(workers=4, **kw))
        req = ("cr_iw2", "cr_cw2", "lk2", "g_r2", "s_wait", "d_c2", "i_rw2", "run_w2", "stop2")
        jobs = [
            ("Stateless", f"Stateless_pure_{tier}.cfg", dict(workers=4, coverage=False)),
            ("Stateless", "Stateless_shared_quick.cfg", dict(workers=1, expect="violation", expect_violated=("Accepted",), coverage=False)),
            ("Stateless", "Stateless_cache_quick.cfg", dict(workers=1, expect="violation", expect_violated=("Accepted",), coverage=False)),
            # the code as it is (maps under cm.mu, state/report under the per-session mutex): every invariant holds
            J("code_quick", required_actions=req),
            J("code_close_quick", required_actions=("cl_c2", "cl_i2", "cl_s2", "cl_u")),
            # documented design counterexamples: the code before bff5ff9 (state/report without a lock)
            J("sess_cex", expect="violation", expect_violated=("NoConflict",), coverage=False),
            J("sess_cex_report", expect="violation", expect_violated=("NoConflict_report",), coverage=False),
        ]
        if thorough:
            jobs += [J("code_thorough", required_actions=req), J("code_close_thorough", required_actions=req + ("cl_s2",)),
                     J("code_one3", required_actions=req), J("code_wide", coverage=False, timeout=1500, heap="10g"),
                     J("sess_cex_state", expect="violation", expect_violated=("NoConflict_state",), coverage=False),
                     # documented design counterexamples: the code before the C16 fixes (abe3a53, 23e3c73)
                     J("old_cex_ingesters", expect="violation", expect_violated=("NoConflict_ingesters",), coverage=False),
                     J("old_cex_cancels", expect="violation", expect_violated=("NoConflict_cancels",), coverage=False),
                     J("old_cex_state", expect="violation", expect_violated=("NoConflict_state",), coverage=False),
                     J("old_cex_stepstuck", expect="violation", expect_violated=("StepNotStuck",), coverage=False),
                     J("old_cex_nilcancel", expect="violation", expect_violated=("NoNilCancel",), coverage=False)]
        res = c.models(jobs, parallel=3)
        if res[0].distinct < 1000:
            raise MachineryError(f"Stateless oracle machine explored only {res[0].distinct} states")
        return {f"{m}/{cfg}": r.violated or r.status for (m, cfg, _), r in zip(jobs, res)}

    pool = ThreadPoolExecutor(max_workers=3)
    fut_models = pool.submit(models)

    # ---- (V) real code: VoD root, then the main process and the -race child side by side
    targs = ["-thorough"] if thorough else []
    st0 = vlib.run_driver(drive, ["-mode", "setup", "-work", wk] + targs)
    vod = wk / "vod"
    main_trace, race_trace, race_stats = wk / "main.ndjson", wk / "race.ndjson", wk / "race_stats.json"
    fut_main = pool.submit(vlib.run_driver, drive, ["-mode", "main", "-work", wk, "-vod", vod, "-out", main_trace, "-seed", c.seed,
                                                    "-n", n] + targs, timeout=1500)
    reports, rc, tail = vlib.run_race_child(drive_race, ["-mode", "race", "-work", wk, "-vod", vod, "-out", race_trace, "-stats", race_stats,
                                                         "-seed", c.seed, "-n", n // (1 if not thorough else 4)] + targs, timeout=1500)
    stm = fut_main.result()
    if not race_stats.exists() or not race_trace.exists():
        raise MachineryError(f"race child wrote no trace/stats (rc={rc}):\n{tail}")
    str_ = json.loads(race_stats.read_text())

    # ---- non-vacuity of what was driven (only decides whether an ACCEPTING run counts: a rejected observation is a
    # verdict whatever the volume - a server that is broken by its own history also shrinks the pool)
    vac = []
    if stm["responses"] < 0.8 * n or stm["keys_in_4_or_more_instance_phases"] < 0.9 * stm["pool"] or stm["rep_metadata_files"] <= 0:
        vac.append(f"main driver coverage too small: responses={stm['responses']} pool={stm['pool']} "
                   f"refused_at_discovery={stm['mpd_refused_at_discovery']}")
    if not stm.get("refused_gap_files") or not stm.get("refused_stale_files") or \
            min(stm.get("gap_asset_200", {}).get("mpd", 0), stm.get("gap_asset_200", {}).get("media", 0)) <= 0:
        vac.append(f"metadata directory of the loading instance lacks a refused-after-parse file of both kinds or the gap asset was not served: "
                   f"gap={stm.get('refused_gap_files')} stale={stm.get('refused_stale_files')} gap_asset_200={stm.get('gap_asset_200')}")
    for src, st in (("main", stm), ("race", str_)):
        for k in NEEDED_KINDS:
            if st["status_by_kind"].get(k, {}).get("200", 0) <= 0:
                vac.append(f"{src} driver: no 200 response of kind {k}: {st['status_by_kind'].get(k)}")
    ing = str_.get("ingest")
    fatal = any(r["site"].startswith("fatal:") for r in reports)
    if not isinstance(ing, dict):
        if not fatal:
            raise MachineryError(f"race child did not finish the ingest phase (rc={rc}) and reported no fatal error:\n{tail}")
        ing = {}
    elif min(ing.get("sessions_created", 0), ing.get("get:200", 0), ing.get("step:200", 0), ing.get("delete:200", 0)) <= 0:
        vac.append(f"race child: ingest API not exercised: {ing}")
    elif ing.get("forced_overlaps", 0) <= 0:
        vac.append(f"race child: the report overlap was not forced (gates ingest:sess_report / ingest:get_report not reached): {ing}")

    # ---- one trace: per part the events of the main process, then those of the race child; last part: the detector's reports
    pm, pr = split_parts(main_trace), split_parts(race_trace, tolerate_truncation=True)
    merged = wk / "c07.ndjson"
    where = {}
    nlines = 0
    with open(merged, "w") as f:
        for p in sorted(set(pm) | set(pr)):
            lines = pm.get(p, []) + pr.get(p, [])
            f.write(json.dumps({"ev": "hdr", "part": p, "n_main": len(pm.get(p, [])), "n_race": len(pr.get(p, []))}, separators=(",", ":")) + "\n")
            for ln in lines:
                e = json.loads(ln)
                if e["ev"] == "resp" and where.setdefault(e["key"], p) != p:
                    raise MachineryError(f"key {e['key']} in parts {where[e['key']]} and {p}: the processes disagree on the partition")
                f.write(ln)
            nlines += 1 + len(lines)
        f.write(json.dumps({"ev": "hdr", "part": "racechild", "n_main": 0, "n_race": 1 + len(reports)}, separators=(",", ":")) + "\n")
        f.write(json.dumps({"ev": "aux", "what": "racechild", "rc": rc, "reports": len(reports),
                            "ingest": {k: v for k, v in ing.items()}}) + "\n")
        for rep in reports:
            f.write(json.dumps({"ev": "fatal" if rep["site"].startswith("fatal:") else "race", "site": rep["site"], "proc": "racechild"}) + "\n")
    events = vlib.read_ndjson(merged)
    r, lines = c.validate_trace_parallel("Stateless_Trace", merged, chunks=8)
    first = {}
    for e in events:
        if e.get("ev") == "resp":
            first.setdefault(e["key"], e)
    for fl in vlib.bad_to_failures(r, events):
        if fl["clause"] == "C07.functional":
            f0 = first.get(fl.get("key"), {})
            url, _, now = fl.get("key", "@").rpartition("@")
            fl.update({"url": url, "now": now, "first_inst": f0.get("inst"), "first_phase": f0.get("phase"), "first_dig": f0.get("dig")})
        c.add_failure(fl)

    if vac and not vlib.classify("C07", c.failures)[0]:
        raise MachineryError("vacuity: " + "; ".join(vac))
    mres = fut_models.result()
    pool.shutdown()
    c.traces += stm["scenarios"] + str_["scenarios"]
    c.events += lines
    c.distinct_nontrivial = stm["keys_in_4_or_more_instance_phases"]
    c.samples = stm.get("samples", [])
    c.exhaustive = False
    drop = ("_stderr_tail", "samples")
    c.extra["main_process"] = {k: v for k, v in stm.items() if k not in drop}
    c.extra["race_child"] = {"rc": rc, "reports": reports, **{k: v for k, v in str_.items() if k not in drop}}
    c.extra["vod_assets"] = st0.get("assets")
    c.extra["model_results"] = mres
    c.extra["forced_overlaps"] = ing.get("forced_overlaps", 0)
    c.extra["design_counterexamples"] = {
        "code before bff5ff9 (documented): GET reads ing.report while the session goroutine appends (NoConflict, NoConflict_report)": [mres.get("IngestMgrImpl/IngestMgrImpl_sess_cex.cfg"), mres.get("IngestMgrImpl/IngestMgrImpl_sess_cex_report.cfg")],
        "oracle sensitivity: shared mutable structure / cache keyed without the full configuration are rejected": [mres.get("Stateless/Stateless_shared_quick.cfg"), mres.get("Stateless/Stateless_cache_quick.cfg")],
    }
    return c.finish()

"""C11 - applying a served MPD patch to the old MPD yields the new MPD."""
import json
from concurrent.futures import ThreadPoolExecutor
import vlib
from vlib import Check, MachineryError

OP_KINDS = ("add_prepend", "add_after", "add_attr", "replace_attr", "replace_elem", "remove_elem", "remove_attr")


def _pos_remove(ev):
    """the patch contains a positional element removal outside a SegmentTimeline (call site addElemChanges/OpDelete)"""
    for o in ev.get("ops", []):
        if o["op"] == "remove" and o["attr"] == "" and o["sel"] and o["sel"][-1]["pk"] == "idx" and o["sel"][-1]["tag"] != "S":
            return True
    return False


def _split(path, chunk):
    """split an ndjson file into pieces of at most `chunk` lines; returns the list of paths"""
    res, out, n = [], None, 0
    with open(path) as f:
        for line in f:
            if out is None or n >= chunk:
                if out:
                    out.close()
                p = path.with_name(f"{path.stem}.{len(res)}.ndjson")
                res.append(p)
                out, n = open(p, "w"), 0
            out.write(line)
            n += 1
    if out:
        out.close()
    return res


def run(tier, replay=None):
    c = Check("C11", tier)
    c.rule = ("one scenario = one pair of MPD documents and the answer of the real code, judged by an independent RFC 5261 applier "
              "in TLA+: (R) every pair of the TLC generator Patch.tla (S-list pairs, id-list pairs at Period / AdaptationSet level, "
              "nested, attribute add/change/remove, schemeIdUri- and position-addressed siblings) rendered to XML and given to the real "
              "patch.MPDDiff; seeded length-skewed lists, live-like sliding windows, random trees with random edits, publish-time "
              "distances around the ttl; (V) live: MPD(t1) -> its PatchLocation requested at t2 -> MPD(t2) through the real router for "
              "9 bundled manifests x patch_60|15 x segtimeline|segtimelinenr|number x single/multi period x t1 (random, before a period "
              "boundary, before the hour, on a segment boundary) x 13 distances t2-t1, plus session start (start_) and end (stop_); "
              "distinct = distinct (old, new, status)")
    c.assumptions = ["white space around character data and attribute order are not significant; namespace prefixes are dropped (local names)",
                     "attribute add is accepted in both forms (sel=.../@a as emitted by livesim2, or RFC 5261 type=\"@a\")",
                     "an attribute add needs the attribute to be absent, replace/remove need it to exist (RFC 5261)",
                     "time-to-live: a patch is demanded only when both t2-t1 and publishTime(t2)-publishTime(t1) are <= ttl; 410 only when both "
                     "exceed ttl + 10 s; 425 with an unchanged publishTime is accepted even if the MPD content changed (counted in the evidence)",
                     "generated / seeded documents have unique ids among siblings"]
    c.trusted = ["harness/drive/c11 recorder (encoding/xml raw-token reader, selector tokeniser with a lossless check)", "TLC"]
    # (M) generator + round trip of the oracle's applier with a reference diff (two add strategies) + sensitivity
    jobs = [("Patch", f"Patch_gen_{tier}.cfg", dict(workers=1, coverage=False, timeout=3000)),
            ("Patch", f"Patch_rt1_{tier}.cfg", dict(workers=2, coverage=False, timeout=3000)),
            ("Patch", f"Patch_rt2_{tier}.cfg", dict(workers=2, coverage=False, timeout=3000)),
            ("Patch", "Patch_sens.cfg", dict(workers=1, coverage=False, expect="violation", expect_violated=("SabotageAccepted",)))]
    if tier == "quick":
        del jobs[1]          # the append strategy of the reference diff is model-checked in the thorough tier only
    res = c.models(jobs)
    if res[-1].status != "invariant":
        raise MachineryError("the oracle accepted every sabotaged operation list (Patch_sens): applier is not sensitive")
    c.extra["design_counterexample_sabotaged_index"] = res[-1].violated
    pairs = vlib.tlc_printed_json(res[0], "GEN")
    if len(pairs) != res[0].distinct or not pairs:
        raise MachineryError(f"generator printed {len(pairs)} pairs for {res[0].distinct} states")
    genf = c.work / "gen.jsonl"
    with open(genf, "w") as f:
        for p in pairs:
            f.write(json.dumps(p) + "\n")
    c.exhaustive = False
    c.extra["generated_pairs"] = len(pairs)

    drive = vlib.build_harness(cmd="c11")
    nseed, nlive = (300, 2) if tier == "quick" else (10000, 12)
    runs = [("gen", ["-mode", "gen", "-gen", genf]), ("seed", ["-mode", "seed", "-n", nseed]), ("live", ["-mode", "live", "-live", nlive])]

    def drive_one(r):
        name, args = r
        trace = c.work / f"c11_{name}.ndjson"
        st = vlib.run_driver(drive, ["-out", trace, "-seed", c.seed] + args, timeout=3000)
        return name, trace, st
    with ThreadPoolExecutor(max_workers=3) as ex:
        driven = list(ex.map(drive_one, runs))
    stats = {}
    pieces = []
    for name, trace, st in driven:
        stats[name] = {k: v for k, v in st.items() if not k.startswith("_") and k != "samples"}
        if st["unsupported_selectors"]:
            raise MachineryError(f"selectors outside the modelled XPath subset: {st['unsupported_selectors'][:5]}")
        c.traces += st["scenarios"]
        c.distinct_nontrivial += st["distinct"]
        c.samples += (st.get("samples") or [])[:3]
        pieces += _split(trace, 5000)
    c.extra["driver"] = stats
    # non-vacuity: every operation kind and every status class was observed
    kinds = {}
    for s in stats.values():
        for k, v in s["op_kinds"].items():
            kinds[k] = kinds.get(k, 0) + v
    missing = [k for k in OP_KINDS if not kinds.get(k)]
    if missing:
        raise MachineryError(f"vacuity: operation kinds never produced by the real code: {missing}")
    # ... and the live scenarios contain instants for which the oracle demands a patch, 410, and (same publishTime) 425
    demanded = {"200": 0, "410": 0, "425": 0}
    for name, trace, st in driven:
        if name != "live":
            continue
        for e in vlib.read_ndjson(trace):
            lim, far = e["ttl"] * 1000, (e["ttl"] + e["margin"]) * 1000
            if e["dpt"] == 0:
                demanded["425"] += 1
            elif e["dt"] <= lim and e["dpt"] <= lim:
                demanded["200"] += 1
            elif e["dt"] > far and e["dpt"] > far:
                demanded["410"] += 1
    c.extra["live_scenarios_by_demanded_status"] = demanded
    if not all(demanded.values()):
        raise MachineryError(f"vacuity: live scenarios do not cover every status class: {demanded}")

    def validate(p):
        r, lines = c.validate_trace("Patch_Trace", p, timeout=3000, heap="6g")
        return p, r, lines
    with ThreadPoolExecutor(max_workers=3) as ex:
        results = list(ex.map(validate, pieces))
    for p, r, lines in results:
        c.events += lines
        if not r.bad:
            continue
        events = vlib.read_ndjson(p)
        for f in vlib.bad_to_failures(r, events):
            ev = events[f["line"] - 1]
            f["posRemove"] = _pos_remove(ev)
            f["trace"] = p.name
            for k in ("old", "new", "ops", "hdr"):
                f.pop(k, None)
            c.add_failure(f)
    (c.work / "failures.json").write_text(json.dumps(c.failures, indent=0))
    return c.finish()

"""C12 - generated time subtitles (stpp / wvtt) show the right UTC second at the right media time."""
import vlib
from vlib import Check, MachineryError


def _period_cues(e, h):
    """Classifier for known_findings.d/C12.json (C12-cue-duration-over-1000): True iff the observed cue list of a `sub`
    event is exactly 'one cue per F = ceil(c/1000) s': for every multiple p of F (UTC seconds) whose interval
    [1000p, 1000p + c) meets the segment, one cue showing p, clipped to the segment - well-formed, right seconds, but
    not one cue per UTC second.  Anything else (wrong second, end <= begin, outside the segment) is not in this class."""
    try:
        c, ph, dur, base = h["c"], e["ph"], e["dur"], int(e["base"])
        if e.get("ev") != "sub" or c <= 1000 or ph < 0 or dur < 1:
            return False
        F = -(-c // 1000)
        want = []
        p = (base // F) * F
        while (p - base) * 1000 - ph < dur:
            b = max((p - base) * 1000 - ph, 0)
            en = min((p - base) * 1000 - ph + c, dur)
            if en > b:
                want.append((b, en, p - base))
            p += F
        got = [(x["b"], x["e"], x["so"]) for x in e["cues"]]
        return got == want and all(x["ok"] and x["nts"] == 1 for x in e["cues"])
    except (KeyError, ValueError, TypeError):
        return False


def run(tier, replay=None):
    c = Check("C12", tier)
    c.rule = ("one event per served object: subtitle media segment (sub), subtitle init segment (init), MPD (mpd), the same "
              "segment under both region settings (regpair); scenario = (asset, stpp|wvtt, configured languages, requested "
              "language, cue duration, region, MPD type number|time|tlnr, startNumber, start time, tsbd); per scenario the "
              "indices 0, in-loop, N-1, N, 3 wraps, two seeded indices over up to 1000 wraps and a year-2025 index (start 0) "
              "or 1000 wraps; $Time$ URLs are taken from the text timeline of the served MPD; distinct = distinct "
              "(asset, URL configuration, language, segment index)")
    c.rule += ("; language sets: plain two-letter tags, BCP-47 tags with subtags (pt-BR, zh-Hans, en-GB-oxendict), sets sharing a primary "
               "subtag in both orders (pt,pt-BR / pt-BR,pt / zh-Hans,zh,zho) and three-letter tags; per scenario every Representation "
               "announced by the MPD is fetched (init + one media segment) by its announced id")
    c.assumptions = [
        "the language of a track is read from elng when present, else from the mdhd language field; it, the TTML xml:lang and the "
        "language word of every cue text must equal the Representation's language exactly (case-sensitive, whole tag)",
        "'lasting the configured cue duration' is accepted both as counted from the UTC second and as counted from the clipped "
        "begin; under the first reading a cue that is over before the segment starts may be omitted; a cue with end <= begin is "
        "never accepted",
        "decode time / duration / MPD times 'in milliseconds' of a value that is not a whole ms may be rounded either way (< 1 ms)",
        "the cue text is searched for one RFC 3339 stamp, the language as a word and the segment number as a number; layout is free",
        "the region setting is only required to select different regions (stpp: defined in the document) and leave the cues unchanged",
        "wvtt: a sample is a cue iff it holds exactly one vttc box with one payl, empty iff exactly one vtte box; sample durations "
        "are read as signed 32-bit (a uint32 wrap of end-begin shows as negative)",
    ]
    c.trusted = ["asset generator ground truth / independent VoD parse of the reference video representation",
                 "harness/drive/c12 projections (encoding/xml TTML + MPD walk, own wvtt box walk, mp4ff fragment decode)", "TLC"]
    # (M) oracle theorems + implementation-shaped calcCueItvls judged by the oracle
    jobs = [("TimeSubs_MC", f"TimeSubs_{tier}.cfg", dict(workers=4, timeout=1500, required_actions=("NextSeg",))),
            ("TimeSubs_MC", "TimeSubs_impl_long.cfg", dict(workers=1, expect="violation", expect_violated=("ImplConforms",), coverage=False)),
            ("TimeSubs_MC", "TimeSubs_impl_long_wf.cfg", dict(workers=1, expect="violation", expect_violated=("ImplOrigWellFormed",), coverage=False)),
            ("TimeSubs_MC", "TimeSubs_impl_phase.cfg", dict(workers=1, expect="violation", expect_violated=("ImplOrigWellFormed",), coverage=False))]
    res = c.models(jobs)
    c.exhaustive = False
    c.extra["design_counterexamples_calcCueItvls"] = {"open_cue_longer_than_a_second_cue_set": res[1].violated,
                                                      "fixed_5285868_cue_longer_than_a_second_well_formed": res[2].violated,
                                                      "fixed_5285868_segment_starts_c_or_more_into_a_second": res[3].violated}
    # (V) real server
    drive = vlib.build_harness(cmd="c12")
    trace = c.work / "c12.ndjson"
    args = ["-out", trace, "-work", c.work, "-seed", c.seed] + (["-thorough"] if tier == "thorough" else [])
    st = vlib.run_driver(drive, args, timeout=3000)
    # non-vacuity of the driver
    for k in ("subs_stpp", "subs_wvtt", "subs_number", "subs_time", "subs_tlnr", "vtte_samples", "subs_start_inside_second",
              "subs_far", "regpairs", "mpds", "mpd_timeline_entries", "inits", "cues", "sweep_subs", "sweep_subs_subtag_lang", "lsets_multi"):
        if st.get(k, 0) <= 0:
            raise MachineryError(f"driver c12: vacuous run, {k} = {st.get(k)}")
    if st["subs_200"] * 10 < st["subs"] * 9:
        vlib.log(f"[c12] only {st['subs_200']} of {st['subs']} subtitle segments served with 200")
    r, lines = c.validate_trace("TimeSubs_Trace", trace, timeout=3000)
    events = vlib.read_ndjson(trace)
    hdr = None
    hdr_at = {}
    for i, e in enumerate(events, 1):
        if e["ev"] == "hdr":
            hdr = e
        hdr_at[i] = hdr
    for f in vlib.bad_to_failures(r, events):
        h = hdr_at.get(f["line"]) or {}
        for k in ("asset", "mode", "fmt", "lang", "c", "reg", "snr", "ast", "cfg", "TS"):
            f.setdefault(k, h.get(k))
        # input classes used by known_findings.d/C12.json
        f["irregular"] = len(set(h.get("dur", []))) > 1          # more than one S element in the video timeline
        i, dur, ts = f.get("i"), h.get("dur", []), h.get("TS", 1)
        f["start_off_ms"] = isinstance(i, int) and 0 <= i < len(dur) and ((h.get("vod0", 0) + sum(dur[:i])) * 1000) % ts != 0
        ph = f.get("ph")
        f["ph_ge_c"] = isinstance(ph, int) and ph >= 0 and isinstance(h.get("c"), int) and ph >= h["c"]
        f["period_cues"] = _period_cues(events[f["line"] - 1], h)
        for big in ("cues", "samples"):
            f.pop(big, None)
        c.add_failure(f)
    c.traces += st["scenarios"]
    c.events += lines
    c.distinct_nontrivial = st["distinct"]
    c.samples = st.get("samples", [])
    c.extra["driver"] = {k: v for k, v in st.items() if not k.startswith("_") and k != "samples"}
    return c.finish()

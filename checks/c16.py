"""C16 - the CMAF-ingest sender emits a complete, ordered and faithful stream."""
import json
import vlib
from vlib import Check, MachineryError

# detail fields that discriminate failing observations (lifted into the observation as d_<name> and into `sig`)
SIG_FIELDS = {
    "C16.duration.count": ("exact", "over"),
    "C16.duration.lmsg": ("exact", "over", "lmsg"),
    "C16.step.returns_after_stop": (),
    "C16.step.returns": ("chunked", "mediaErr"),
    "C16.step.delivers": ("chunked", "mediaErr"),
    "C16.complete.crash": ("site", "variants"),   # + msg (event field) for the map-race class
}


def run(tier, replay=None):
    c = Check("C16", tier)
    c.rule = ("one scenario = one fresh livesim2 server (own process) + scripted receiver + 1-3 ingest sessions driven through the "
              "REST API by 1-3 concurrent clients: fixed multi-step sessions for every variant (Number / Timeline($Time$) / "
              "timeline-number URLs, stpp / wvtt generated subtitles, imsc1, 2 s and 8 s assets, chunked low latency) x "
              "{per-segment, Streams()} URLs x {with, without credentials}, durations {1,2,4,7,10 s}, (R) scripts of the "
              "explorer model (step/delete anywhere x receiver 5xx at init / 1st / 2nd media) and seeded random scenarios "
              "(slow / 5xx / 403 receivers, concurrent clients, delete racing with steps); thorough adds real-time "
              "(timer driven) sessions; distinct = distinct scenario descriptions modulo the start instant")
    c.assumptions = [
        "live edge = newest segment of the reference (video) track that has fully ended at testNowMS; start number 0",
        "duration D: D*1000/segdur segments when it divides, else floor or ceiling accepted",
        "an API call that has not returned after the bound (quick 3 s, thorough 4 s) is recorded as stuck",
        "after a receiver error status or a DELETE call the session may stop (text leaves it open); a step on a session that "
        "may have stopped may be refused (non-200) but must return",
        "init segment compared structurally (track id, timescale, sample entry without btrt); media byte-identical "
        "to livesim2's own HTTP response (modulo the lmsg brand on the last segment)",
        "DASH-IF-Ingest version header must be 1.1 (the interface version the project implements)",
        "real-time sessions: start instant known within [POST, first media request]",
    ]
    c.trusted = ["harness/drive/c16 receiver/recorder and its mp4ff parse of received bodies", "TLC"]
    wk = 4
    # ---- (M) explorer judged by the oracle operators
    J = lambda cfg, **kw: ("IngesterImpl_MC", f"IngesterImpl_{cfg}.cfg", dict(workers=wk, timeout=3000, **kw))
    req = ("sel", "snd_", "s1", "c1", "c2", "stop")
    # configs of the CURRENT code (Extra = 0 after 36579e0, StepGuard = TRUE after 23e3c73): expect ok;
    # durbug / live_bug model the code as it was written: documented design counterexamples
    jobs = [
        J("quick", required_actions=req),
        J("dur_quick", required_actions=req),
        J("live_quick", coverage=False),
        J("durbug", expect="violation", expect_violated=("DurationCount", "DurationLmsg"), coverage=False),
        J("live_bug", expect="violation", expect_violated=("ApiReturns",), coverage=False),
        ("IngesterImpl_MC", f"IngesterImpl_gen_{tier}.cfg", dict(workers=1, coverage=False, timeout=3000)),
        ("IngesterImpl_MC", f"IngesterImpl_gendur_{tier}.cfg", dict(workers=1, coverage=False, timeout=3000)),
    ]
    if tier == "thorough":
        jobs += [J("thorough"), J("thorough_err"), J("dur_thorough"), J("wide"), J("live", coverage=False),
                 J("quiesc", coverage=False), J("quiesc_orig", coverage=False)]
    res = c.models(jobs, parallel=4)
    c.extra["design_counterexamples_code_as_written"] = {
        "duration_plus_one (lastSegNrToSend = next + nrSegs, inclusive loop; fixed by 36579e0)": res[3].violated,
        "step_on_stopped_session_blocks (unbuffered nextSegTrigger, no receiver; fixed by 23e3c73)": res[4].violated,
    }
    for r, name in ((res[3], "durbug"), (res[4], "live_bug")):
        if r.status == "ok":
            raise MachineryError(f"explorer {name}: expected design counterexample not found")
    # ---- (R) explored scripts: group outcomes per (script, errs, nseg)
    groups = {}
    for g in vlib.tlc_printed_json(res[5], "GEN") + vlib.tlc_printed_json(res[6], "GEN"):
        key = json.dumps([g["script"], g["errs"], g["nseg"]], sort_keys=True)
        it = groups.setdefault(key, {"script": g["script"], "errs": g["errs"], "nseg": g["nseg"], "outs": []})
        o = {"media": g["out"]["media"], "rets": g["out"]["rets"]}
        if o not in it["outs"]:
            it["outs"].append(o)
    if not groups:
        raise MachineryError("explorer produced no scripts")
    genf = c.work / "gen.jsonl"
    with open(genf, "w") as f:
        for k in sorted(groups):
            f.write(json.dumps(groups[k]) + "\n")
    # ---- (V) real code
    drive = vlib.build_harness(cmd="c16")
    trace = c.work / "c16.ndjson"
    if tier == "quick":
        args = ["-ngen", 36, "-n", 14, "-nconc", 4, "-stuckms", 3000, "-par", 12]
    else:
        args = ["-ngen", 0, "-n", 80, "-nconc", 30, "-stuckms", 4000, "-par", 12, "-realtime"]
    st = vlib.run_driver(drive, ["-out", trace, "-gen", genf, "-seed", c.seed] + args, timeout=3000)
    r, lines = c.validate_trace("Ingester_Trace", trace, timeout=3000)
    events = vlib.read_ndjson(trace)
    hdr_at, cur = {}, None
    for i, e in enumerate(events, 1):
        if e["ev"] == "hdr":
            cur = e
        hdr_at[i] = cur
    for f in vlib.bad_to_failures(r, events):
        h = hdr_at.get(f["line"]) or {}
        f["desc"] = h.get("desc")
        try:
            d = json.loads(f.get("detail") or "{}")
        except Exception:
            d = {}
        if isinstance(d, dict):
            for k, v in d.items():
                f["d_" + k] = v
        f["sig"] = f["clause"] + "".join(f"|{k}={d.get(k)}" for k in SIG_FIELDS.get(f["clause"], ()) if isinstance(d, dict))
        for k in ("dg", "dgx", "ref", "isig", "rsig", "path"):
            f.pop(k, None)
        c.add_failure(f)
    # non-vacuity of the trace clauses
    kinds = {}
    for e in events:
        kinds[e["ev"]] = kinds.get(e["ev"], 0) + 1
    for need in ("sess", "call", "ret", "req", "reqend", "end"):
        if not kinds.get(need):
            raise MachineryError(f"vacuity: no '{need}' event in the trace")
    if st["media_requests"] < 50 or st["init_requests"] < 20:
        raise MachineryError(f"vacuity: too few requests recorded: {st['media_requests']} media, {st['init_requests']} init")
    c.traces += st["scenarios"]
    c.events += lines
    c.distinct_nontrivial = st["distinct"]
    c.samples = st.get("samples", [])
    c.extra["driver"] = {k: st[k] for k in ("sessions", "media_requests", "init_requests", "stuck_calls", "crashes", "variants",
                                            "gen_total", "gen_replayed", "_wall_s")}
    c.extra["event_kinds"] = kinds
    if st["fidelity_mismatch"]:
        c.fidelity.append(f"{st['fidelity_mismatch']} replayed explorer scripts: real outcome (media per representation, returned calls) "
                          f"not among the explorer's outcomes, e.g. {st['fidelity_examples'][:2]}")
    return c.finish()

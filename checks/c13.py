"""C13 - SCTE-35 events follow the per-minute schedule, each announced exactly once."""
import json
from concurrent.futures import ThreadPoolExecutor

import vlib
from vlib import Check, MachineryError


def run(tier, replay=None):
    c = Check("C13", tier)
    thorough = tier == "thorough"
    c.rule = ("one event per served segment / MPD / rejected request; scenario = (asset, scte35_N, start_, addressing mode, epoch): the MPD, "
              "EVERY video segment of a contiguous run (quick 22 min, thorough 62 min and 4 h) and, for one N per asset, the audio / text "
              "segments of the same run and scte35_<v> for v outside {1,2,3}; assets = bundled 2/6/8 s + generated 2.002 s, 0.48 s, "
              "irregular, alternating + own layouts 1, 1.92, 3, 3.84, 4(+1.5), 5, 7, 7.5, 9, 9.6, 10 s and 9.5/3.5/5/10 s mixed; epochs = stream "
              "start, first 33-bit PTS wrap (26.5 h), wall clock 2025, a PTS wrap in 2025; start_ in {0, 1699999020} (multiples of 60) and "
              "{1000, 1700000017}; plus scte35_N combined with every other documented option (annexI with the query on the requests, periods, "
              "periods+continuous, patch, timesubsstpp/wvtt incl. the generated subtitle segments, eccp_cenc/cbcs, drm_<package>, segtimeline, "
              "segtimelinenr, ato, ato+chunkdur (chunked bodies), tsbd, snr, mup, spd, utc, ltgt, sidx; either order of the URL parts): quick "
              "each option singly on one asset, thorough on three assets and all pairs; 5-minute runs, MPD at both ends of the run; "
              "distinct = distinct (asset, N, start_, mode, epoch, options)")
    c.assumptions = [
        "which end of the carrying segment's interval is closed is left open by the text: a segment [s,e) may carry the event for T iff s <= T-7 <= e; "
        "exactly-once is judged on the partition by a contiguous run (obligations only for announce instants strictly inside the run)",
        "'wall-clock minute': the schedule may be anchored on the minutes of the media timeline (time since start_) or of the wall clock; a scenario is "
        "accepted if one anchoring explains the whole run; which one held is reported in coverage.minute_grid",
        "emsg id: demanded to equal splice_event_id and to differ between different events (the text says 'consistent'); id = splice second is not demanded",
        "segments are requested 1 ms after their availability instant; segment durations are <= 10 s (quantifier), so one segment never has to carry two events",
    ]
    c.trusted = ["mp4ff decoder in the recorder (emsg, tfdt, trun)", "harness/drive/c13 splice_info_section decoder and CRC-32/MPEG-2 (cross-checked "
                 "against gots field by field inside the trace specification)", "asset generator ground truth (timescale)", "TLC"]

    wk = 4
    ok = dict(workers=wk, timeout=1500, required_actions=("Step",))
    cex = dict(workers=2, timeout=600, expect="violation", coverage=False)
    jobs = [("Scte35_MC", "Scte35_quick.cfg", ok),
            ("Scte35_MC", "Scte35_cur_quick.cfg", dict(ok, workers=2)),   # CreateEmsgAhead as it is now (28a0bd0)
            ("Scte35_MC", "Scte35_impl.cfg", dict(cex, expect_violated=("RuleAccepted",))),
            ("Scte35_MC", "Scte35_both.cfg", dict(cex, expect_violated=("NoDup",))),
            ("Scte35_MC", "Scte35_neither.cfg", dict(cex, expect_violated=("NoMissing",)))]
    if thorough:
        jobs += [("Scte35_MC", "Scte35_alt_quick.cfg", ok), ("Scte35_MC", "Scte35_thorough.cfg", ok), ("Scte35_MC", "Scte35_thirds_thorough.cfg", ok), ("Scte35_MC", "Scte35_fix.cfg", ok),
                 ("Scte35_MC", "Scte35_impl_small.cfg", dict(ok, workers=2))]
    pool = ThreadPoolExecutor(max_workers=1)
    mfut = pool.submit(c.models, jobs, 3)

    drive = vlib.build_harness(cmd="c13")
    shards = 6 if thorough else 2
    base = c.work / "c13"
    args = ["-out", base, "-shards", shards, "-work", c.work, "-seed", c.seed] + (["-thorough"] if thorough else [])
    st = vlib.run_driver(drive, args, timeout=3000)

    def validate(sh):
        trace = f"{base}.{sh}.ndjson"
        r, lines = c.validate_trace("Scte35_Trace", trace, timeout=3000, heap="6g")
        return sh, trace, r, lines

    with ThreadPoolExecutor(max_workers=3) as ex:
        results = list(ex.map(validate, range(shards)))
    res = mfut.result()
    pool.shutdown()
    # the expected design counterexamples must exist: the monitor clauses reject what they are meant to reject
    for (m, cfgn, kw), r in zip(jobs, res):
        if kw.get("expect") == "violation" and r.status == "ok":
            raise MachineryError(f"model {cfgn}: the expected counterexample {kw.get('expect_violated')} was not found (monitor too weak)")
    c.extra["design_counterexamples"] = {"CreateEmsgAhead_before_28a0bd0 (rule impl)": res[2].violated, "closed_both_ends": res[3].violated,
                                         "open_both_ends": res[4].violated}

    grid = {"scenarios": 0, "start_multiple_of_60": 0, "other_start": 0, "other_start_media_minutes_accepted": 0,
            "other_start_wallclock_minutes_accepted": 0, "no_reading_accepted": 0}
    for sh, trace, r, lines in results:
        events = vlib.read_ndjson(trace)
        hdr_at, cur = {}, None
        for i, e in enumerate(events, 1):
            if e["ev"] == "hdr":
                cur = e
            hdr_at[i] = cur
        for f in vlib.bad_to_failures(r, events):
            if f["clause"].startswith("M."):
                raise MachineryError(f"recorder sanity clause {f['clause']} failed at {trace}:{f['line']}: {json.dumps(f)[:1500]}")
            try:
                d = json.loads(f.get("detail") or "null")
            except json.JSONDecodeError:
                d = None
            if isinstance(d, dict):
                for k, v in d.items():
                    f.setdefault(k, v)
            h = hdr_at.get(f["line"]) or {}
            for k in ("asset", "pm", "ast", "astmod", "mode", "epoch", "TS", "dur", "vod0", "cfg", "opts", "chunked"):
                f.setdefault(k, h.get(k))
            f["trace"] = trace.split("/")[-1]
            c.add_failure(f)
        for n in vlib.tlc_printed_json(r, "NOTE"):
            grid["scenarios"] += 1
            if n["astmod"] == 0:
                grid["start_multiple_of_60"] += 1
            else:
                grid["other_start"] += 1
                grid["other_start_media_minutes_accepted"] += 1 if 0 in n["accepted"] else 0
                grid["other_start_wallclock_minutes_accepted"] += 1 if n["astmod"] in n["accepted"] else 0
            if not n["accepted"]:
                grid["no_reading_accepted"] += 1
        c.events += lines
    if grid["scenarios"] != st["scenarios"]:
        raise MachineryError(f"{grid['scenarios']} scenario verdicts printed by the trace specification for {st['scenarios']} scenarios")
    # non-vacuity of the driver
    if st["options_covered"] < st["options_single"]:
        raise MachineryError(f"vacuity: only {st['options_covered']} of {st['options_single']} options were combined with scte35 "
                             f"({st['combinations_refused_without_scte35']} combinations refused by the server without scte35)")
    for k in ("emsgs", "other_rep_segments", "rejections", "runs_with_pts_wrap", "mpds", "option_scenarios"):
        if not st.get(k):
            raise MachineryError(f"vacuity: driver statistic {k} = {st.get(k)}")
    if not grid["other_start"] or not grid["start_multiple_of_60"]:
        raise MachineryError(f"vacuity: start times {grid}")
    c.traces += st["scenarios"]
    c.distinct_nontrivial = st["distinct"]
    c.samples = st.get("samples", [])
    c.extra["video_segments"] = st["segments"]
    c.extra["emsg_boxes"] = st["emsgs"]
    c.extra["audio_text_segments"] = st["other_rep_segments"]
    c.extra["audio_text_segments_not_served_skipped"] = st.get("other_rep_not_served", 0)
    c.extra["rejected_requests"] = st["rejections"]
    c.extra["stream_hours"] = st["stream_hours"]
    c.extra["runs_straddling_a_pts_wrap"] = st["runs_with_pts_wrap"]
    c.extra["assets"] = st["assets"]
    c.extra["minute_grid"] = grid
    c.extra["scenarios_scte35_with_other_options"] = st["option_scenarios"]
    c.extra["option_combinations_covered"] = st["options_covered"]
    c.extra["combinations_refused_without_scte35_skipped"] = st["combinations_refused_without_scte35"]
    return c.finish()

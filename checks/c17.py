"""C17 - ingest receiver: stored media and timeline MPD agree for any arrival order."""
import json
from concurrent.futures import ThreadPoolExecutor

import vlib
from vlib import Check, MachineryError, SPEC

MC = "ReceiverImpl_MC"
# explorer's panic sites -> innermost receiver frame of the real panic
WHY_FN = {"buf.add": "(*segDataBuffer).add", "ctr.add": "(*seqCounters).add",
          "start.nil": "(*segDataBuffer).nrItems", "start.div0": "(*channel).deriveAndSetBitrates"}


def _models(c, tier):
    wk = 4
    ok = dict(workers=wk, timeout=1500)
    cex = dict(workers=2, timeout=600, coverage=False, expect="violation")
    jobs = [
        # the CURRENT code (all fix flags TRUE): every interleaving of T=2 x M=4 with one deviation (transposition / gap /
        # duplicate) in one track, windows 2/3/8, and T=3 x M=4 with a late track: every clause incl. NoPanic
        (MC, "ReceiverImpl_all_quick.cfg", dict(required_actions=("Process", "Choose"), **ok)),
        (MC, "ReceiverImpl_late_quick.cfg", dict(required_actions=("Process", "Register"), **ok)),
        # ... and with one ABORTED upload (body breaks inside the first / a later fragment; must be a no-op on buffers,
        # counters and the MPD), with and without the retry of the number in full
        (MC, "ReceiverImpl_abort_quick.cfg", dict(required_actions=("Process",), **ok)),
        # still open in the current code: storage is not bounded (orphan files)
        (MC, "ReceiverImpl_cex_orphan.cfg", dict(expect_violated=("BoundedFiles",), **cex)),
        # repaired by 59900e3 (documented design counterexample with FixDeleteOnAccept = FALSE, and the same instance
        # on the current code): a refused upload deleted <n - maxNrBufSegs>, which was listed afterwards
        (MC, "ReceiverImpl_cex_abortdelete.cfg", dict(expect_violated=("Listed",), **cex)),
        (MC, "ReceiverImpl_abortdelete_fixed.cfg", dict(workers=2, timeout=600, coverage=False)),
        # (R) generator: every interleaving of T=2 x M=4 for the windows 2, 3, 8
        (MC, "ReceiverImpl_gen_quick.cfg", dict(workers=1, coverage=False, timeout=900)),
        # (R) generator: every interleaving with one aborted upload + retry (quick: of the 3rd / 4th number, window 3,
        # a seeded sample of 80 is replayed; thorough: every position, with / without retry, windows 2, 3, 8, 2500 replayed)
        (MC, "ReceiverImpl_genabort_quick.cfg" if tier == "quick" else "ReceiverImpl_genabort.cfg",
         dict(workers=1, coverage=False, timeout=1500)),
    ]
    slow = []
    if tier == "thorough":
        jobs += [(MC, "ReceiverImpl_gendev.cfg", dict(workers=1, coverage=False, timeout=1500))]
        jobs += [
        # the algorithm as originally written (fix flags FALSE): its positive control and the documented design
        # counterexamples, one per repaired defect
        (MC, "ReceiverImpl_asw_sync_w8_quick.cfg", dict(required_actions=("Process",), **ok)),
        (MC, "ReceiverImpl_cex_bufadd.cfg", dict(expect_violated=("NoPanicBufAdd",), **cex)),
        (MC, "ReceiverImpl_cex_ctradd_shrink.cfg", dict(expect_violated=("NoPanicCtrAdd",), **cex)),
        (MC, "ReceiverImpl_cex_jump.cfg", dict(expect_violated=("NoPanicCtrAdd",), **cex)),
        (MC, "ReceiverImpl_cex_startnil.cfg", dict(expect_violated=("NoPanicStartNil",), **cex)),
        (MC, "ReceiverImpl_cex_startdiv0.cfg", dict(expect_violated=("NoPanicStartDiv0",), **cex)),
        (MC, "ReceiverImpl_cex_late.cfg", dict(expect_violated=("Listed",), **cex)),
        (MC, "ReceiverImpl_cex_boundedbuf.cfg", dict(expect_violated=("BoundedBuf",), **cex)),
        ]
        # the large instances run in the background while the histories are replayed (joined before the verdict)
        slow = [
            (MC, "ReceiverImpl_t3m5_all_thorough.cfg", dict(required_actions=("Process",), **ok)),
            (MC, "ReceiverImpl_t3late_thorough.cfg", dict(required_actions=("Process", "Register"), **ok)),
            (MC, "ReceiverImpl_t2m5_any_thorough.cfg", dict(required_actions=("Process",), **ok)),
            (MC, "ReceiverImpl_jumps_thorough.cfg", dict(required_actions=("Process",), **ok)),
            (MC, "ReceiverImpl_t3abort_thorough.cfg", dict(required_actions=("Process",), **ok)),
        ]
    pool = ThreadPoolExecutor(max_workers=2)
    pending = [pool.submit(c.model, m, cfgn, **kw) for (m, cfgn, kw) in slow]
    pool.shutdown(wait=False)
    res = c.models(jobs, parallel=6)
    by = {cfg: r for (_, cfg, _), r in zip(jobs, res)}
    c.extra["design_counterexamples"] = {cfg[len("ReceiverImpl_cex_"):-4]: r.violated for cfg, r in by.items() if "_cex_" in cfg}
    gen = vlib.tlc_printed_json(by["ReceiverImpl_gen_quick.cfg"], "GEN")
    exhaustive = len(gen)
    if tier == "thorough":
        seen = {json.dumps(g, sort_keys=True) for g in gen}
        for g in vlib.tlc_printed_json(by["ReceiverImpl_gendev.cfg"], "GEN"):
            k = json.dumps(g, sort_keys=True)
            if k not in seen:
                seen.add(k)
                gen.append(g)
    ab = vlib.tlc_printed_json(by["ReceiverImpl_genabort_quick.cfg" if tier == "quick" else "ReceiverImpl_genabort.cfg"], "GEN")
    if not gen or not ab:
        raise MachineryError("explorer produced no behaviours")
    c.extra["tlc_enumerated_abort_histories"] = len(ab)
    import random
    ab.sort(key=lambda g: json.dumps(g, sort_keys=True))
    ab = random.Random(c.seed).sample(ab, min(80 if tier == "quick" else 2500, len(ab)))
    gen += ab
    # the SAME enumerated histories on shifted channels: a seeded sample is replayed a second time with the encoder's
    # numbers / times shifted (number-shifted ahead / behind / counting from 1, time-shifted, startNr 0 / 1)
    rnd = random.Random(c.seed + 17)
    shifts = [dict(base=20, k=3, toff=0, startNr=0), dict(base=20, k=-2, toff=0, startNr=0), dict(base=20, k=-19, toff=0, startNr=0),
              dict(base=20, k=0, toff=30000, startNr=0), dict(base=20, k=2, toff=60000, startNr=1), dict(base=20, k=4, toff=0, startNr=1),
              dict(base=20, k=1, toff=0, startNr=1), dict(base=20, k=45, toff=0, startNr=0)]
    extra = []
    for g in rnd.sample(gen, min(40 if tier == "quick" else 800, len(gen))):
        g2 = dict(g)
        g2["shift"] = rnd.choice(shifts)
        extra.append(g2)
    c.extra["tlc_histories_replayed_on_shifted_channels"] = len(extra)
    gen += extra
    return gen, exhaustive, pending


def _replay_model(c, hists):
    """ReceiverReplay: the explorer run along the very histories the driver replays -> predictions by id."""
    r = vlib.run_tlc("ReceiverReplay", SPEC / "mc" / "ReceiverReplay.cfg", workdir=c.work, files={"hists.ndjson": hists},
                     workers=1, timeout=1500, heap="6g")
    c.tlc_jobs.append({"kind": "model-replay", "module": "ReceiverReplay", "cfg": "ReceiverReplay.cfg", **r.summary()})
    c.states += r.distinct
    c.transitions += r.generated
    if r.status != "ok":
        raise MachineryError(f"ReceiverReplay: {r.status} {r.violated}\n{r.out[-3000:]}")
    return {p["id"]: p for p in vlib.tlc_printed_json(r, "PRED")}


def _enrich(events, failures):
    """Attach the discriminating fields of the history / upload to every failing observation."""
    # one pass: per line, the state of the history so far
    info = {}
    cur = None
    for ln, e in enumerate(events, 1):
        ev = e["ev"]
        if ev == "hdr":
            cur = {"hdr": e, "start": None, "prefill": {}, "lastfill": {}, "window": e["initWindow"], "maxSeen": 0,
                   "startedPrev": False, "ups": {}, "snaps": {}, "refused": []}
        elif ev == "up" and cur is not None:
            snap = {"maxSeenBefore": cur["maxSeen"], "windowBefore": cur["window"], "startedPrev": cur["startedPrev"]}
            cur["snaps"][e["i"]] = snap
            hk = e["hook"]
            if e["kind"] == "media" and e["status"] != 200 and e.get("nproc", 0) > 0:
                # refused after its first fragment had been taken: the handler has already made room for it
                cur["refused"].append((ln, e["track"], e["sn"]))
            if e["kind"] == "media" and e["status"] == 200:
                # numbers are the STORED numbers (renumbered on a shifted channel)
                cur["ups"].setdefault(e["track"], []).append((ln, e["sn"], cur["startedPrev"]))
                cur["maxSeen"] = max(cur["maxSeen"], e["sn"])
            if hk["have"]:
                if hk["started"] and cur["start"] is None:
                    cur["start"] = {"line": ln, "cfill": hk["cfill"], "clen": hk["clen"], "fill": dict(hk["fill"]),
                                    "prefill": dict(cur["lastfill"])}
                cur["lastfill"] = dict(hk["fill"])
                cur["window"] = hk["window"]
                cur["startedPrev"] = hk["maxBuf"] > 0
            info[ln] = (cur, snap)
            continue
        elif ev == "crash" and cur is not None:
            # the crash may be attributed to an upload whose observation is already in the trace (see driver): use
            # the state before THAT upload
            info[ln] = (cur, cur["snaps"].get(e["i"], {"maxSeenBefore": cur["maxSeen"], "windowBefore": cur["window"],
                                                        "startedPrev": cur["startedPrev"]}))
            continue
        info[ln] = (cur, {})
    out = []
    for f in failures:
        cur, snap = info.get(f["line"], (None, {}))
        if cur is None:
            out.append(f)
            continue
        h = cur["hdr"]
        st = cur["start"]
        e = events[f["line"] - 1]
        f.update({"hid": h["hid"], "class": h["class"], "src": h["src"], "tsbd": h["tsbd"], "window": h["window"],
                  "shrink": h["window"] < h["initWindow"], "order": h["order"][:400]})
        clause = f["clause"]
        if e["ev"] == "crash":
            t = e["track"]
            f["after_start"] = st is not None
            # stale size/fill left behind by resize(): the fill before start exceeded the new window
            f["stale_buf"] = bool(st and st["prefill"].get(t, -1) > h["window"])
            f["stale_ctr"] = bool(st and st["cfill"] > st["clen"])
            f["jump_ge_window"] = bool(snap["maxSeenBefore"] and e["n"] - snap["maxSeenBefore"] >= snap["windowBefore"])
        if clause == "C17.bounded.counters":
            f["stale_ctr"] = bool(st and st["cfill"] > st["clen"])
        if clause == "C17.bounded.files":
            # why is the directory over-full: for every file outside the retention window, was the upload that
            # triggers its deletion (number + maxBuf, stored while the window was known, after the file) ever seen?
            t = e["track"]
            ups = cur["ups"].get(t, [])
            newest = max((n for (l, n, sp) in ups if l <= f["line"]), default=0)
            stale = [x["n"] for x in e["files"][t] if x["n"] <= newest - h["maxBuf"]]
            failed = []
            for n in stale:
                stored_at = max((l for (l, m, _) in ups if m == n and l <= f["line"]), default=0)
                if any(m == n + h["maxBuf"] and sp and stored_at < l <= f["line"] for (l, m, sp) in ups):
                    failed.append(n)
            f["stale_files"] = stale[:20]
            f["orphan_cause"] = "deleter_failed" if failed else ("no_trigger" if stale else "window_too_large")
        if clause in ("C17.stored", "C17.listed.decoded"):
            # the stored segment <track>/<k> was (partly) overwritten by a later REFUSED upload of the same stored number
            try:
                d = json.loads(f.get("detail") or "[]")
                tk = d[d.index("track") + 1] if "track" in d else d[d.index("rep") + 1]
                k = d[d.index("n") + 1]
            except Exception:
                tk = k = None
            acc = max((l for (l, m, _) in cur["ups"].get(tk, []) if m == k and l <= f["line"]), default=0)
            f["overwritten_by_refused_upload"] = bool(acc and any(acc < l <= f["line"] and t == tk and m == k for (l, t, m) in cur["refused"]))
        if clause == "C17.listed.files":
            try:
                d = json.loads(f.get("detail") or "[]")
                rep = d[d.index("rep") + 1]
            except Exception:
                rep = None
            f["rep"] = rep
            # a track joined after the channel started: the published MPD has more Representations than the
            # track count frozen at start() (_nrTracks as reported by the process hook of this upload)
            nreps = sum(len(a["reps"]) for a in e["mpd"]["as"])
            f["mpd_reps"] = nreps
            f["reps_gt_nrTracks"] = bool(e["hook"]["have"] and nreps > e["hook"]["nrTracks"])
            # the missing file <rep>/<k> is the one a REFUSED upload of number k + maxNrBufSegs made room for
            try:
                k = d[d.index("n") + 1]
            except Exception:
                k = None
            f["deleted_by_refused_upload"] = bool(k is not None and any(
                l <= f["line"] and t == rep and m == k + h["maxBuf"] for (l, t, m) in cur["refused"]))
        out.append(f)
    return out


def _fidelity(c, events, preds):
    """Compare the explorer's prediction with the real outcome of every history (notes only)."""
    compared = mism = predicted_panics = reproduced = 0
    examples = []
    for e in events:
        if e["ev"] not in ("end", "crash"):
            continue
        p = preds.get(e["hid"])
        if p is None:
            continue
        compared += 1
        if p["panic"]:
            predicted_panics += 1
        if e["ev"] == "crash":
            same = p["panic"] and WHY_FN.get(p["why"]) == e["fn"]
            reproduced += 1 if same else 0
        else:
            # a channel in shifted mode renumbers (and forgets what it had before it tuned in): the explorer's numbers
            # are the logical ones, only "no panic / started" are comparable
            off = e.get("off", 0)   # not in shifted mode: stored number = logical number + base + k - startNr
            same = (not p["panic"]) and (e.get("shifted") or [x + off for x in p["mpd"]] == list(e["range"]))
            if same and e["hookSeen"] and e.get("shifted"):
                same = p["started"] == e["started"]
            elif same and e["hookSeen"]:
                same = p["latest"] + (off if p["latest"] else 0) == e["latest"] and p["started"] == e["started"] and \
                    (not p["started"] or p["nrTracks"] == e["nrTracks"])
        if not same:
            mism += 1
            if len(examples) < 3:
                examples.append({"hid": e["hid"], "pred": p, "real": {k: e.get(k) for k in ("ev", "fn", "range", "latest", "started", "nrTracks")}})
    c.extra["explorer_fidelity_check"] = {"histories_compared": compared, "mismatches": mism,
                                          "model_predicted_panics": predicted_panics, "reproduced_by_real_code": reproduced}
    if mism:
        c.fidelity.append(f"{mism} of {compared} histories: real outcome differs from the explorer's prediction, e.g. {json.dumps(examples)[:900]}")
    return compared


def run(tier, replay=None):
    c = Check("C17", tier)
    c.rule = ("one scenario = one upload history replayed against a fresh receiver through its real router with real fMP4 "
              "segments (testpic_2s re-stamped), sequentially, one observation per upload (HTTP status, directory listings with "
              "digests, parsed manifest_timeline_nr.mpd, process-hook scalars) + a concurrent MPD reader; histories: every "
              "interleaving of T=2 tracks x M=4 numbers for windows 2/3/8 enumerated by TLC from the explorer model "
              "(thorough: also with one transposition / gap / duplicate) and seeded longer runs (T=2..3, 6..22 numbers, "
              "gaps, duplicates, transpositions, late / slow tracks, sequence-number jumps, tsbd 2..30 s); distinct = distinct "
              "(tsbd, init order, upload order)")
    c.assumptions = ["uploads are sequential: the driver waits for the complete `process` event before the next upload",
                     "channels are unshifted (tfdt = number * duration on the master) and keep their timescale, so stored bytes must equal uploaded bytes",
                     "retention reading: number n of a track must be on disk while n > newest(track) - maxNrBufSegs",
                     "C17.listed is judged when the MPD is (re)published; a missing or stale MPD is not a violation (counted as mpd_never_published)",
                     "an upload not answered / not processed within 30 s counts as stopped receiver",
                     "initialSegmentsWindow = 8 is taken as the window in force before the channel has started"]
    c.trusted = ["harness/drive/c17 recorder, its segment builder and its independent parse of the VoD asset", "dash-mpd XML parser", "TLC"]
    with ThreadPoolExecutor(max_workers=1) as ex:
        fut_build = ex.submit(vlib.build_harness, cmd="c17")
        gen, exhaustive, pending = _models(c, tier)
        drive = fut_build.result()
    genf = c.work / "gen.jsonl"
    with open(genf, "w") as f:
        for g in gen:
            f.write(json.dumps(g) + "\n")
    n = 150 if tier == "quick" else 1500
    args = ["-gen", genf, "-seed", c.seed, "-n", n]
    hists = c.work / "hists.ndjson"
    vlib.run_driver(drive, ["-plan", hists] + args)
    trace = c.work / "c17.ndjson"
    with ThreadPoolExecutor(max_workers=1) as ex:
        fut_pred = ex.submit(_replay_model, c, hists)     # explorer along the same histories, concurrently
        st = vlib.run_driver(drive, ["-out", trace, "-par", 4, "-tmp", c.work / "st"] + args, timeout=3000)
        r, lines = c.validate_trace("Receiver_Trace", trace, timeout=3000)
        preds = fut_pred.result()
    for fut in pending:
        fut.result()      # a failed model job is a machinery error
    events = vlib.read_ndjson(trace)
    for f in _enrich(events, vlib.bad_to_failures(r, events)):
        c.add_failure(f)
    compared = _fidelity(c, events, preds)
    # non-vacuity: how often each clause had something to decide
    ne = {"hdr": 0, "up": 0, "poll": 0, "end": 0, "crash": 0}
    ev_n = {"accepted_media_uploads": 0, "publications_judged_by_listed": 0, "listed_numbers": 0,
            "bounded_files_judged": 0, "hook_observations": 0, "observations_with_mpd": 0,
            "aborted_uploads_refused": 0, "aborted_after_first_fragment": 0, "retries_accepted_after_abort": 0,
            "accepted_chunked_segments": 0, "listed_numbers_compared_with_decoded_file": 0}
    aborted = set()
    cur_as = []
    started_prev = False
    for e in events:
        ne[e["ev"]] = ne.get(e["ev"], 0) + 1
        if e["ev"] == "hdr":
            started_prev = False
            aborted = set()
            cur_as = []
        if e["ev"] != "up":
            continue
        acc = e["kind"] == "media" and e["status"] == 200
        if e["kind"] == "media" and e["cut"]:
            ev_n["aborted_uploads_refused"] += e["status"] != 200
            ev_n["aborted_after_first_fragment"] += bool(e["status"] != 200 and e["nproc"] > 0)
            aborted.add((e["track"], e["n"]))
        elif acc:
            ev_n["retries_accepted_after_abort"] += (e["track"], e["n"]) in aborted
            aborted.discard((e["track"], e["n"]))
            ev_n["accepted_chunked_segments"] += e["frags"] > 1
        if e["mpd"]["state"] == "new":
            cur_as = e["mpd"]["as"] if e["mpd"]["ok"] else []
        elif e["mpd"]["state"] == "absent":
            cur_as = []
        for a in cur_as:
            have = [{x["n"] for x in e["files"].get(r, [])} for r in a["reps"]]
            k = a["start"]
            for x in a["S"]:
                for _ in range(x["r"] + 1):
                    ev_n["listed_numbers_compared_with_decoded_file"] += sum(k in hv for hv in have)
                    k += 1
        ev_n["accepted_media_uploads"] += acc
        ev_n["bounded_files_judged"] += bool(acc and started_prev)
        ev_n["hook_observations"] += bool(e["hook"]["have"])
        ev_n["observations_with_mpd"] += e["mpd"]["state"] != "absent"
        if e["mpd"]["state"] == "new" and e["mpd"]["ok"]:
            ev_n["publications_judged_by_listed"] += 1
            ev_n["listed_numbers"] += sum(sum(x["r"] + 1 for x in a["S"]) * len(a["reps"]) for a in e["mpd"]["as"])
        if e["hook"]["have"]:
            started_prev = e["hook"]["maxBuf"] > 0
    c.extra["clause_evaluations"] = ev_n
    c.extra["trace_events"] = ne
    if min(ne["hdr"], ne["up"], ne["poll"], ne["end"]) == 0 or min(ev_n.values()) == 0:
        raise MachineryError(f"vacuous trace: {ne} {ev_n}")
    # vacuity
    if st["scenarios"] != st["tlc_histories"] + st["seeded_histories"] or st["publications"] == 0 or st["poll_reads"] == 0 or st["histories_started"] == 0:
        raise MachineryError(f"vacuous run: {json.dumps({k: v for k, v in st.items() if not k.startswith('_')})[:1500]}")
    if compared < st["scenarios"]:
        raise MachineryError(f"explorer predictions for {compared} of {st['scenarios']} histories only")
    c.traces += st["scenarios"]
    c.events += lines
    c.distinct_nontrivial = st["distinct"]
    c.samples = st.get("samples", [])
    c.exhaustive = False
    c.extra.update({
        "tlc_enumerated_histories": st["tlc_histories"], "exhaustive_t2_m4_histories": exhaustive,
        "seeded_histories": st["seeded_histories"], "uploads": st["uploads"], "rejected_uploads": st["rejected_uploads"],
        "mpd_publications_observed": st["publications"], "mpd_never_published": st["mpd_never_published"],
        "histories_started": st["histories_started"], "poller_reads": st["poll_reads"], "poller_incomplete_reads": st["poll_bad"],
        "receiver_process_deaths": st["crashes"], "panic_sites": st["crash_fns"], "histories_by_class": st["by_class"],
    })
    return c.finish()

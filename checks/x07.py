"""X07 (extra specification) - the HTTP envelope of livesim2: CORS / version headers on every response, entity headers by
resource kind, HEAD = GET without body, redirects, patch Expires, truthful service endpoints (/config, /assets, /metrics)."""
import json

import vlib
from vlib import Check, MachineryError


def _discriminators(f, ev):
    """Fields that tell the failing input class (known_findings matching only; the verdict is TLC's)."""
    r = ev.get("r") or {}
    for k in ("route", "method", "outcome", "kind", "srv"):
        f[k] = r.get(k)
    for k in ("r", "o", "a", "b", "in", "vals"):
        f.pop(k, None)
    if ev.get("ev") == "resp":
        o = ev["o"]
        for k in ("st", "ct", "cl", "blen", "hcl", "hbytes", "writes", "flushes", "te", "loc"):
            f[k] = o.get(k)
        f["env_counts"] = ",".join(f"{n}={c}" for (n, c, _v) in o.get("env", []))
    elif ev.get("ev") == "pair":
        a, b = ev["a"], ev["b"]
        f["rel"] = ev.get("rel")
        f["a_st"], f["a_method"], f["b_st"] = a.get("st"), a.get("method"), b.get("st")
        f["b_allow"] = ",".join(b.get("allow", []))
    elif ev.get("ev") == "scrape":
        f["scrape_st"] = ev.get("st")


def run(tier, replay=None):
    c = Check("X07", tier)
    c.rule = ("one scenario = one element of the abstract request space route x method x outcome class x resource kind x server x variant "
              "enumerated by TLC (HttpEnvelope.tla; routes = the route table of routes.go / start.go, servers = one without and one with a "
              "request limit), concretised by the seeded driver (asset, representation, segment number, instant, URL parameters, tail, query) "
              "and sent over loopback HTTP to the real server through a ResponseWriter that snapshots the handler's headers and counts "
              "writes / flushes; every response (auxiliary ones included: warm-ups of the 429 class, GET of a HEAD pair, follow / direct of a "
              "redirect, OPTIONS of every 405, the .mpd files of the VoD root, scrapes) is judged by every clause; distinct = distinct "
              "(route, method, outcome, kind, server) classes")
    c.assumptions = [
        "the intended outcome class of a generated request (200 / 400 / 404 / 410 / 425 / configured 5xx / 429) only selects inputs: WHICH "
        "status an available or unavailable segment gets is C01 / C04 / C08 / C14 / C20's subject; X07 judges a status only where its text "
        "states one (429 over the limit, 302 redirects, 204 OPTIONS, /healthz /version /config 200, 404 or 405 outside the route table, 200 for "
        "a thumbnail in low-latency mode); classes whose intended status is not reached are reported (missed_examples), every class must be "
        "reached at least once (machinery)",
        "Content-Type is compared as media type without parameters; no type is demanded for files below /vod (http.FileServer; observed "
        "types are listed in vod_content_types), for error bodies, /static, /reqcount, /loglevel, /metrics, /api",
        "HEAD = GET compares status and Content-Type on the wire and the Content-Length the HANDLER set (net/http adds a Content-Length to "
        "short complete GET answers and not to HEAD answers: its artefact is not held against livesim2)",
        "chunked clause: chunk duration = segment duration - ato, chosen as a quarter of the segment on assets with uniform whole-second "
        "segments; requests are made long after the segment's end so that no chunk is waited for",
        "an unknown path may be answered 404 or 405 (chi answers 405 because of the POST and OPTIONS catch-alls)",
        "/metrics: counters are process-wide (both server instances share them); the driver is sequential, every HTTP request it makes is "
        "one resp event; /player (reverse proxy to an external host) and /debug (pprof) are not requested",
        "/assets: the page is parsed with a regular expression following templates/assets.html",
        "publishTime of an MPD is whole seconds (Expires has 1 s resolution): Expires - publishTime is compared in whole seconds",
    ]
    c.trusted = ["harness/drive/x07: loopback client (net/http), the counting ResponseWriter, projection of header maps to (name, count, first value), "
                 "media-type parsing, extension of a path, subtraction of two parsed instants, the regular expressions reading /metrics, /assets "
                 "and PatchLocation", "TLC"]
    # (M) + (R): abstract request space, oracle sanity on every element, GEN lines
    g = c.model("HttpEnvelope", f"HttpEnvelope_{tier}.cfg", workers=4, coverage=False, timeout=600)
    gens = vlib.tlc_printed_json(g, "GEN")
    if len(gens) < 600 or len(gens) != g.distinct:
        raise MachineryError(f"HttpEnvelope printed {len(gens)} classes for {g.distinct} states")
    genf = c.work / "gen.jsonl"
    genf.write_text("".join(json.dumps(x) + "\n" for x in gens))
    # (V) real code
    drive = vlib.build_harness(cmd="x07")
    trace = c.work / "x07.ndjson"
    args = ["-gen", genf, "-out", trace, "-work", c.work / "drv", "-seed", c.seed]
    if tier == "thorough":
        args.append("-thorough")
    st = vlib.run_driver(drive, args, timeout=1200)
    r, lines = c.validate_trace("HttpEnvelope_Trace", trace, timeout=1500)
    events = vlib.read_ndjson(trace)
    for f in vlib.bad_to_failures(r, events):
        if f["clause"].startswith("hdr."):
            raise MachineryError(f"trace inconsistent: {f}")
        _discriminators(f, events[f["line"] - 1])
        c.add_failure(f)
    # non-vacuity (machinery)
    xs = vlib.tlc_printed_json(r, "X07STATS")
    if not xs or xs[0]["resp"] != st["requests"] or xs[0]["pairs"] == 0 or xs[0]["windows"] < 3:
        raise MachineryError(f"X07 vacuity: TLC judged {xs}, driver made {st['requests']} requests")
    resp = [e for e in events if e["ev"] == "resp"]
    n_chunked = sum(1 for e in resp if e["r"]["kind"] in ("llvideo", "llaudio") and e["r"]["method"] == "GET" and e["o"]["st"] == 200)
    n_exp = sum(1 for e in resp if e["r"]["route"] == "patch" and e["o"]["st"] == 200 and e["o"]["hasexp"])
    n_429 = sum(1 for e in resp if e["o"]["st"] == 429)
    n_ct = sum(1 for e in resp if e["o"]["st"] == 200 and e["r"]["route"] in ("live", "patch") and not e["aux"])
    never = [k for k in ("ok", "bad", "notfound", "gone", "early", "code", "err", "limited", "redirect") if st["achieved"].get(k, 0) == 0]
    stt = st["stats"]
    if never or min(n_chunked, n_exp, n_429, n_ct) == 0 or stt.get("pairs_head", 0) == 0 or stt.get("pairs_redirect", 0) == 0 \
            or stt.get("assets_listed", 0) < 5 or st["servable_mpds"] < 5:
        raise MachineryError(f"X07 vacuity: outcome classes never reached {never}; chunked {n_chunked}, patch Expires {n_exp}, 429 {n_429}, "
                             f"typed entities {n_ct}, stats {stt}, servable {st['servable_mpds']}")
    c.traces += st["scenarios"]
    c.events += lines
    c.distinct_nontrivial = st["distinct"]
    c.samples = st.get("samples", [])
    c.extra["abstract_requests"] = len(gens)
    c.extra["driver"] = {k: st.get(k) for k in ("requests", "stats", "achieved", "missed", "missed_examples", "statuses", "vod_content_types",
                                                 "servable_mpds", "mpd_files", "assets", "limmax")}
    c.extra["judged"] = {"responses": xs[0]["resp"], "pairs": xs[0]["pairs"], "metric_windows": xs[0]["windows"], "chunked_200": n_chunked,
                         "patch_200_with_expires": n_exp, "status_429": n_429, "typed_200_entities": n_ct}
    return c.finish()

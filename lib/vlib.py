"""Shared machinery for /verif/bin/check (python3 stdlib only).

Pipeline per property (DESIGN.md section 3.6):
  build harness from $VERIF_REPO with -tags verif  ->  (M) TLC model jobs
  ->  (R)/(V) drivers produce ndjson traces of the real code  ->  lint  ->  TLC trace jobs
  ->  classify failing observations against known_findings.json  ->  evidence + exit code.

Exit codes: 0 accepted, 1 VIOLATION (real-code observation rejected by the spec),
2 machinery problem (never a violation).
"""
import hashlib
import json
import os
import re
import shutil
import subprocess
import sys
import time
from pathlib import Path

VERIF = Path(__file__).resolve().parents[1]
REPO = Path(os.environ.get("VERIF_REPO", "/repo"))
WORK = VERIF / "work"
SPEC = VERIF / "spec"
TLA_CP = "/opt/veriftools/tla/tla2tools.jar:/opt/veriftools/tla/CommunityModules-deps.jar"
INT_LIMIT = 2 ** 31


class MachineryError(Exception):
    """Anything that prevents a verdict (exit 2)."""


def log(*a):
    print(*a, file=sys.stderr, flush=True)


def seed():
    try:
        return int(os.environ.get("VERIF_SEED", "1"))
    except ValueError:
        return 1


def goenv():
    e = dict(os.environ)
    e.update({"GOFLAGS": "-mod=mod", "GOPROXY": "off", "GOSUMDB": "off", "GOTOOLCHAIN": "local",
              "CGO_ENABLED": e.get("CGO_ENABLED", "1")})
    return e


# ----------------------------------------------------------------------------- harness build

def build_harness(race=False, cmd="drive"):
    """Copy harness/ to work/hb-<cmd>, point the replace directive at $VERIF_REPO, build harness/cmd/<cmd>.
    Always rebuilds from the repository's current working tree (go's build cache makes it cheap).
    One build directory per command so that checks of different properties can run concurrently."""
    hb = WORK / ("hb-" + cmd + ("-race" if race else ""))
    hb.mkdir(parents=True, exist_ok=True)
    rs = subprocess.run(["rsync", "-a", "--delete", "--exclude", "go.mod", "--exclude", "go.sum",
                         str(VERIF / "harness") + "/", str(hb) + "/"], capture_output=True, text=True)
    if rs.returncode not in (0, 24):   # 24 = "file vanished" while the source tree is being edited
        raise MachineryError("rsync of harness failed: " + rs.stderr[-1000:])
    gomod = (VERIF / "harness" / "go.mod.tmpl").read_text().replace("@REPO@", str(REPO))
    old = (hb / "go.mod").read_text() if (hb / "go.mod").exists() else ""
    if old != gomod:
        (hb / "go.mod").write_text(gomod)
    shutil.copy(REPO / "go.sum", hb / "go.sum")
    out = WORK / "bin" / (cmd + ("-race" if race else ""))
    out.parent.mkdir(parents=True, exist_ok=True)
    gocmd = ["go", "build", "-tags", "verif"] + (["-race"] if race else []) + ["-o", str(out), "./cmd/" + cmd]
    t0 = time.time()
    p = subprocess.run(gocmd, cwd=hb, env=goenv(), capture_output=True, text=True)
    if p.returncode != 0:
        raise MachineryError("harness build failed:\n" + p.stdout[-4000:] + p.stderr[-4000:])
    log(f"[build] {out.name} in {time.time()-t0:.1f}s (repo={REPO})")
    return out


def run_driver(binary, args, *, timeout=3600, cwd=None, env=None, ok_codes=(0,)):
    """Run a harness driver; its stdout last line must be a JSON stats object."""
    e = goenv()
    e["VERIF_REPO"] = str(REPO)
    if env:
        e.update(env)
    t0 = time.time()
    try:
        p = subprocess.run([str(binary)] + [str(a) for a in args], cwd=cwd or str(WORK), env=e,
                           capture_output=True, text=True, timeout=timeout)
    except subprocess.TimeoutExpired:
        raise MachineryError(f"driver timeout after {timeout}s: {args}")
    if p.returncode not in ok_codes:
        raise MachineryError(f"driver {args} exited {p.returncode}:\n{p.stdout[-3000:]}\n{p.stderr[-6000:]}")
    stats = None
    for line in reversed(p.stdout.strip().splitlines()):
        line = line.strip()
        if line.startswith("{"):
            try:
                stats = json.loads(line)
                break
            except json.JSONDecodeError:
                continue
    if stats is None:
        raise MachineryError(f"driver {args} printed no stats JSON:\n{p.stdout[-2000:]}\n{p.stderr[-3000:]}")
    stats["_wall_s"] = round(time.time() - t0, 2)
    stats["_stderr_tail"] = p.stderr[-2000:]
    stats["_rc"] = p.returncode
    return stats


# ----------------------------------------------------------------------------- traces

def lint_trace(path):
    """Refuse any JSON integer with |v| >= 2^31 (TLC's Json module wraps silently). Returns #lines."""
    n = 0
    num = re.compile(rb'(?<![\w."])-?\d{10,}(?![\w."])')
    with open(path, "rb") as f:
        for ln, line in enumerate(f, 1):
            n += 1
            if b"null" in line:
                for m in re.finditer(rb'(?<![\w"])null(?![\w"])', line):
                    if line[:m.start()].count(b'"') % 2 == 0:
                        raise MachineryError(f"lint: {path}:{ln}: JSON null cannot be read by TLC's Json module (nil slice in the recorder?)")
            for m in num.finditer(line):
                # skip numbers inside strings: cheap check by counting quotes before the match
                if line[:m.start()].count(b'"') % 2 == 1:
                    continue
                if abs(int(m.group())) >= INT_LIMIT:
                    raise MachineryError(f"lint: {path}:{ln}: integer {m.group().decode()} does not fit TLC's 32-bit integers")
    if n == 0:
        raise MachineryError(f"lint: empty trace {path}")
    return n


def read_ndjson(path):
    with open(path) as f:
        return [json.loads(l) for l in f if l.strip()]


# ----------------------------------------------------------------------------- TLC

class TlcResult:
    def __init__(self):
        self.rc = None
        self.out = ""
        self.generated = 0
        self.distinct = 0
        self.depth = 0
        self.status = "unknown"   # ok | invariant | temporal | deadlock | postcondition | error | timeout
        self.violated = []        # names of violated invariants / properties
        self.printed = []         # PrintT outputs (raw strings)
        self.bad = []             # [(line, clause)] from monitor clauses
        self.coverage = {}        # action -> (distinct, total)
        self.wall_s = 0.0
        self.dir = None

    def summary(self):
        return {"status": self.status, "generated": self.generated, "distinct": self.distinct,
                "depth": self.depth, "violated": self.violated, "wall_s": round(self.wall_s, 2)}


_tlc_counter = [0]
import threading  # noqa: E402
_tlc_lock = threading.Lock()


def run_tlc(module, cfg, *, workdir, files=None, workers=1, timeout=900, deadlock=False,
            simulate=None, depth=None, coverage=False, heap="6g", extra_args=(), dfs=False, seed_arg=None,
            dump_dot=None):
    """Run TLC on spec/<module>.tla with configuration file `cfg` (path) in a scratch directory.
    files: {name: path} extra files copied/symlinked next to the spec (e.g. trace.ndjson)."""
    with _tlc_lock:
        _tlc_counter[0] += 1
        d = Path(workdir) / f"tlc_{_tlc_counter[0]}_{module}"
    if d.exists():
        shutil.rmtree(d)
    d.mkdir(parents=True)
    for f in SPEC.rglob("*.tla"):
        if f.parent.name == "proofs":   # TLAPS / Apalache modules: bin/proofs
            continue
        shutil.copy(f, d / f.name)
    shutil.copy(cfg, d / (module + ".cfg"))
    for name, src in (files or {}).items():
        dst = d / name
        if dst.exists():
            dst.unlink()
        os.symlink(os.path.abspath(src), dst)
    # TLC leaves an (empty) tlc-<n> directory per run in java.io.tmpdir: keep it inside the job directory, not in /tmp
    (d / "jtmp").mkdir(exist_ok=True)
    jopts = ["-XX:+UseParallelGC", f"-Xmx{heap}", "-Xss512m", f"-Djava.io.tmpdir={d / 'jtmp'}"]
    if dfs:
        jopts.append("-Dtlc2.tool.queue.IStateQueue=StateDeque")
    cmd = ["java"] + jopts + ["-cp", TLA_CP, "tlc2.TLC", "-metadir", str(d / "states"),
                               "-workers", str(workers), "-config", module + ".cfg"]
    if not deadlock:
        cmd.append("-deadlock")   # -deadlock DISABLES deadlock checking
    if coverage:
        cmd += ["-coverage", "1"]
    if simulate:
        cmd += ["-simulate", simulate]
    if depth:
        cmd += ["-depth", str(depth)]
    if seed_arg is not None:
        cmd += ["-seed", str(seed_arg)]
    if dump_dot:
        cmd += ["-dump", "dot,actionlabels", dump_dot]
    cmd += list(extra_args) + [module + ".tla"]
    r = TlcResult()
    r.dir = d
    t0 = time.time()
    try:
        p = subprocess.run(cmd, cwd=d, capture_output=True, text=True, timeout=timeout)
        r.rc = p.returncode
        r.out = p.stdout + p.stderr
    except subprocess.TimeoutExpired as e:
        r.status = "timeout"
        r.out = (e.stdout or b"").decode(errors="replace") if isinstance(e.stdout, bytes) else (e.stdout or "")
        subprocess.run(["pkill", "-f", str(d)], capture_output=True)
    r.wall_s = time.time() - t0
    (d / "tlc.out").write_text(r.out)
    _parse_tlc(r)
    log(f"[tlc] {module} {os.path.basename(str(cfg))}: {r.status} gen={r.generated} distinct={r.distinct} {r.wall_s:.1f}s")
    shutil.rmtree(d / "states", ignore_errors=True)
    return r


_bad_re = re.compile(r'<<"BAD",\s*(\d+),\s*"([^"]+)"(?:,\s*(.*))?>>')


def _parse_tlc(r):
    out = r.out
    m = None
    for m in re.finditer(r"(\d+) states generated, (\d+) distinct states found", out):
        pass
    if m:
        r.generated, r.distinct = int(m.group(1)), int(m.group(2))
    m = re.search(r"The depth of the complete state graph search is (\d+)", out)
    if m:
        r.depth = int(m.group(1))
    for line in out.splitlines():
        line = line.strip()
        if line.startswith('"BAD{'):
            try:
                o = json.loads(json.loads(line)[3:])
                r.bad.append((int(o["l"]), o["clause"], json.dumps(o.get("detail"))))
            except Exception:
                r.bad.append((0, "unparsed-BAD-line", line[:300]))
    for m in re.finditer(r"Invariant (\S+) is violated", out):
        r.violated.append(m.group(1))
    for m in re.finditer(r"Temporal properties were violated|Action property (\S+) is violated|[Tt]emporal property (\S+) (?:is|was) violated", out):
        r.violated.append(next((g for g in m.groups() if g), "temporal"))
    # coverage lines:  <Action line 12, col 1 to line 20, col 30 of module M>: 12:34
    for m in re.finditer(r"^<(\w+) line \d+, col \d+ to line \d+, col \d+ of module (\w+)>: (\d+):(\d+)", out, re.M):
        name = m.group(1)
        dist, tot = int(m.group(3)), int(m.group(4))
        prev = r.coverage.get(name, (0, 0))
        r.coverage[name] = (max(prev[0], dist), max(prev[1], tot))
    if r.status == "timeout":
        return
    if "Model checking completed. No error has been found" in out or \
       ("Finished in" in out and r.rc == 0):
        r.status = "ok"
    elif re.search(r"Invariant \S+ is violated", out):
        r.status = "invariant"
    elif re.search(r"Temporal propert(y|ies) .*violated", out) or ("Action property" in out and "is violated" in out):
        r.status = "temporal"
    elif "Deadlock reached" in out:
        r.status = "deadlock"
    elif "postcondition" in out.lower() and ("violated" in out.lower() or "false" in out.lower()):
        r.status = "postcondition"
    elif r.rc == 0:
        r.status = "ok"
    else:
        r.status = "error"


def tlc_printed_json(r, prefix):
    """Collect JSON payloads printed by PrintT(<<prefix, ToJson(x)>>) or PrintT(prefix \\o ToJson(x))."""
    res = []
    for line in r.out.splitlines():
        line = line.strip()
        if line.startswith('"' + prefix):
            try:
                s = json.loads(line)   # the TLA+ string literal is JSON-compatible
                res.append(json.loads(s[len(prefix):]))
            except Exception:
                continue
    return res


# ----------------------------------------------------------------------------- known findings

def load_findings(prop):
    p = VERIF / "known_findings.json"
    if not p.exists():
        return []
    data = json.loads(p.read_text())
    byid = {}
    for f in data.get("findings", []):
        if f.get("property") == prop:
            byid[f.get("id", len(byid))] = f
    # entries proposed / updated while a check is being built override the merged copy with the same id
    for extra in sorted((VERIF / "known_findings.d").glob("*.json")) if (VERIF / "known_findings.d").exists() else []:
        for f in json.loads(extra.read_text()).get("findings", []):
            if f.get("property") == prop:
                byid[f.get("id", len(byid))] = f
    res = list(byid.values())
    return res


def _match(pred, obs):
    """pred: {field: value | {"in": [...]} | {"re": "..."} | {"ne": v} | {"lt": v} | {"ge": v}} conjunctive."""
    for k, want in pred.items():
        have = obs.get(k)
        if isinstance(want, dict):
            if "in" in want and have not in want["in"]:
                return False
            if "re" in want and (have is None or not re.search(want["re"], str(have))):
                return False
            if "ne" in want and have == want["ne"]:
                return False
            if "lt" in want and not (isinstance(have, (int, float)) and have < want["lt"]):
                return False
            if "ge" in want and not (isinstance(have, (int, float)) and have >= want["ge"]):
                return False
            if "gt" in want and not (isinstance(have, (int, float)) and have > want["gt"]):
                return False
            if "le" in want and not (isinstance(have, (int, float)) and have <= want["le"]):
                return False
        elif have != want:
            return False
    return True


def classify(prop, failures):
    """failures: list of observation dicts, each with at least 'clause'.  Returns (new, matched{id:count})."""
    findings = [f for f in load_findings(prop) if f.get("status") == "open"]
    new, matched = [], {}
    for obs in failures:
        hit = None
        for f in findings:
            if _match(f.get("match", {}), obs):
                hit = f
                break
        if hit is None:
            new.append(obs)
        else:
            matched[hit["id"]] = matched.get(hit["id"], 0) + 1
    return new, matched, {f["id"]: f for f in findings}


# ----------------------------------------------------------------------------- evidence / verdict

class Check:
    """Accumulates what one `bin/check <ID> <tier>` run did and produces evidence + exit code."""

    def __init__(self, prop, tier, level="model_checking"):
        self.prop, self.tier, self.level = prop, tier, level
        self.t0 = time.time()
        self.seed = seed()
        self.work = WORK / prop
        if self.work.exists():
            shutil.rmtree(self.work)
        self.work.mkdir(parents=True)
        self.states = 0
        self.transitions = 0
        self.traces = 0
        self.events = 0
        self.distinct_nontrivial = 0
        self.samples = []
        self.tlc_jobs = []
        self.failures = []        # observation dicts of the REAL code rejected by the oracle
        self.extra = {}
        self.assumptions = []
        self.trusted = []
        self.rule = ""
        self.exhaustive = False
        self.fidelity = []        # explorer/code drift notes (never violations)

    # -- model jobs
    def model(self, module, cfg_name, *, expect="ok", expect_violated=(), workers="auto", timeout=1200,
              coverage=True, required_actions=(), deadlock=False, heap="8g", **kw):
        cfg = SPEC / "mc" / cfg_name
        r = run_tlc(module, cfg, workdir=self.work, workers=workers, timeout=timeout, coverage=coverage,
                    deadlock=deadlock, heap=heap, **kw)
        job = {"kind": "model", "module": module, "cfg": cfg_name, **r.summary()}
        self.tlc_jobs.append(job)
        self.states += r.distinct
        self.transitions += r.generated
        if r.status in ("timeout", "error"):
            raise MachineryError(f"TLC {module}/{cfg_name}: {r.status}\n{r.out[-3000:]}")
        if expect == "ok" and r.status != "ok":
            raise MachineryError(f"TLC {module}/{cfg_name}: expected no error, got {r.status} {r.violated}\n{r.out[-4000:]}")
        if expect == "violation":
            if r.status == "ok":
                self.fidelity.append(f"{module}/{cfg_name}: expected design counterexample ({expect_violated}) not found")
            job["expected_counterexample"] = list(expect_violated)
        for a in required_actions:
            if r.coverage.get(a, (0, 0))[1] == 0:
                raise MachineryError(f"TLC {module}/{cfg_name}: vacuity - action {a} never taken (coverage {r.coverage})")
        job["coverage"] = {k: v[1] for k, v in r.coverage.items()}
        return r

    def proofs(self, names, timeout=420):
        """Unbounded arguments (TLAPS / Apalache, bin/proofs) for the small specifications behind this property; thorough
        tier only. A job that is not ok is a machinery problem (exit 2), never a finding about the code."""
        cmd = [str(VERIF / "bin" / "proofs"), "--only", ",".join(names), "--timeout", str(timeout)]
        r = subprocess.run(cmd, capture_output=True, text=True, timeout=timeout * 3 + 120)
        jobs = []
        for line in r.stdout.splitlines():
            m = re.match(r"PROOF (\S+) (\S+) (\S+) (\S+) (\S+)", line)
            if m:
                jobs.append({"name": m.group(1), "tool": m.group(2), "status": m.group(3), "seconds": float(m.group(4)),
                             "obligations": m.group(5)})
        self.extra["unbounded_proofs"] = jobs
        if r.returncode != 0 or len(jobs) != len(names) or any(j["status"] != "ok" for j in jobs):
            raise MachineryError(f"bin/proofs {names}: rc={r.returncode}\n{r.stdout[-2000:]}\n{r.stderr[-2000:]}")
        return jobs

    def models(self, jobs, parallel=4):
        """Run several model jobs concurrently. jobs: list of (module, cfg_name, kwargs). Returns results in order."""
        from concurrent.futures import ThreadPoolExecutor
        with ThreadPoolExecutor(max_workers=parallel) as ex:
            futs = [ex.submit(self.model, m, cfgn, **kw) for (m, cfgn, kw) in jobs]
            return [f.result() for f in futs]

    # -- trace jobs (monitor acceptance)
    def validate_trace(self, module, trace_path, *, cfg_name=None, timeout=1800, heap="8g", extra_files=None,
                       blocking=False, dfs=False):
        n = lint_trace(trace_path)
        cfg = SPEC / "trace" / (cfg_name or module + ".cfg")
        files = {"trace.ndjson": trace_path}
        files.update(extra_files or {})
        r = run_tlc(module, cfg, workdir=self.work, files=files, workers=1, timeout=timeout, heap=heap, dfs=dfs)
        job = {"kind": "trace", "module": module, "trace": os.path.basename(str(trace_path)), "lines": n, **r.summary()}
        self.tlc_jobs.append(job)
        self.states += r.distinct
        self.transitions += r.generated
        if r.status in ("timeout", "error", "deadlock", "invariant", "temporal"):
            raise MachineryError(f"TLC trace {module} on {trace_path}: {r.status} {r.violated}\n{r.out[-4000:]}")
        consumed = None
        m = re.search(r'"CONSUMED(\{.*\})"', r.out)
        nbad = None
        if m:
            o = json.loads(json.loads('"' + m.group(1) + '"'))
            consumed, nbad = int(o["n"]), int(o.get("bad", -1))
        if nbad is not None and nbad >= 0 and nbad != len(r.bad):
            raise MachineryError(f"trace spec {module}: {nbad} failing clauses counted by TLC but {len(r.bad)} BAD lines parsed")
        job["consumed"] = consumed
        if not blocking:
            # monitor acceptance: every line must have been consumed, else the trace spec itself is broken
            if consumed is not None and consumed != n:
                raise MachineryError(f"trace spec {module} consumed {consumed} of {n} lines of {trace_path} "
                                     f"(monitor specs must consume every line)\n{r.out[-3000:]}")
            if consumed is None and r.distinct < n:
                raise MachineryError(f"trace spec {module} visited {r.distinct} states for {n} lines\n{r.out[-3000:]}")
            if r.status == "postcondition" and not r.bad:
                raise MachineryError(f"trace spec {module}: postcondition false but no BAD line\n{r.out[-3000:]}")
        return r, n

    def validate_trace_parallel(self, module, trace_path, *, chunks=8, timeout=1800, heap="4g", cfg_name=None, workers=None, cost=None):
        """Monitor-style validation of a long trace split at scenario headers (lines with "ev":"hdr" and no
        keepdigs:true) into `chunks` files that are validated by concurrent TLC processes. Returns
        (list of (line, clause, detail) with ORIGINAL line numbers, total lines). `workers` bounds the number of concurrent
        TLC processes (default: one per part); many small parts on fewer workers balance uneven scenario costs."""
        from concurrent.futures import ThreadPoolExecutor
        lint_trace(trace_path)
        with open(trace_path) as f:
            lines = f.readlines()
        n = len(lines)
        starts = [i for i, ln in enumerate(lines) if '"ev":"hdr"' in ln and '"keepdigs":true' not in ln]
        if not starts or starts[0] != 0:
            raise MachineryError(f"{trace_path}: does not start with a scenario header")
        # parts of equal estimated cost (default: one unit per line), cut at scenario headers
        w = [1.0] * n if cost is None else [float(cost(ln)) for ln in lines]
        total_w = sum(w)
        target = max(1.0, total_w / chunks)
        cuts = [0]
        acc = 0.0
        si = 1
        for i in range(n):
            if si < len(starts) and i == starts[si]:
                if acc >= target and len(cuts) < chunks:
                    cuts.append(i)
                    acc = 0.0
                si += 1
            acc += w[i]
        cuts.append(n)
        parts = []
        for k in range(len(cuts) - 1):
            pth = Path(str(trace_path) + f".part{k}")
            with open(pth, "w") as f:
                f.writelines(lines[cuts[k]:cuts[k + 1]])
            parts.append((pth, cuts[k], sum(w[cuts[k]:cuts[k + 1]])))
        parts.sort(key=lambda x: -x[2])   # the most expensive parts first: a short tail

        def one(arg):
            pth, off, _ = arg
            r, cnt = self.validate_trace(module, pth, timeout=timeout, heap=heap, cfg_name=cfg_name)
            return [(l + off, c, d) for (l, c, d) in r.bad], cnt
        bad = []
        total = 0
        with ThreadPoolExecutor(max_workers=min(chunks, workers or chunks)) as ex:
            for b, cnt in ex.map(one, parts):
                bad += b
                total += cnt
        if total != n:
            raise MachineryError(f"parallel validation consumed {total} of {n} lines")
        for pth, _, _ in parts:
            pth.unlink()

        class R:  # same shape as TlcResult for bad_to_failures
            pass
        r = R()
        r.bad = sorted(bad)
        return r, n

    def add_failure(self, obs):
        self.failures.append(obs)

    def finish(self):
        new, matched, fmap = classify(self.prop, self.failures)
        for fid, cnt in matched.items():
            print(f"KNOWN-FINDING: property={self.prop} {fmap[fid]['what']} [{fid}, {cnt} observation(s)]")
        replay = None
        if new:
            rp = self.work / "violation.json"
            rp.write_text(json.dumps({"property": self.prop, "tier": self.tier, "seed": self.seed,
                                      "failures": new[:200], "n_failures": len(new)}, indent=1))
            keep = VERIF / "work" / f"{self.prop}_violation.json"
            shutil.copy(rp, keep)
            replay = keep
        cov = {
            "states": max(self.states, 0),
            "transitions": max(self.transitions, 0),
            "traces_validated_against_impl": self.traces,
            "evaluations": self.events,
            "distinct_nontrivial": self.distinct_nontrivial,
            "rule": self.rule,
            "samples": self.samples[:8] if self.samples else ["(none)"],
            "exhaustive": self.exhaustive,
            "tlc_jobs": self.tlc_jobs,
            "explorer_fidelity": self.fidelity,
            "known_findings_matched": matched,
            "trusted_base": self.trusted,
        }
        cov.update(self.extra)
        ev = {"property_id": self.prop, "tier": self.tier, "seed": self.seed, "level": self.level,
              "coverage": cov, "assumptions": self.assumptions, "wall_s": round(time.time() - self.t0, 2),
              "violations": len(new)}
        (VERIF / "evidence").mkdir(exist_ok=True)
        (VERIF / "evidence" / f"{self.prop}.json").write_text(json.dumps(ev, indent=1, default=str) + "\n")
        if new:
            for o in new[:10]:
                print("FAILED-OBSERVATION " + json.dumps(o, default=str)[:600])
            print(f"VIOLATION property={self.prop} replay={replay}")
            return 1
        print(f"OK property={self.prop} tier={self.tier} seed={self.seed} events={self.events} "
              f"traces={self.traces} states={self.states} wall={ev['wall_s']}s")
        return 0


def bad_to_failures(r, events, base=None):
    """Map TLC monitor output <<"BAD", l, clause>> to observation dicts built from the trace events.
    events: list of trace records (1-based line numbers as in TLC)."""
    res = []
    for (l, clause, rest) in r.bad:
        ev = events[l - 1] if 0 < l <= len(events) else {}
        obs = {"clause": clause, "line": l}
        if rest:
            obs["detail"] = rest
        for k, v in ev.items():
            if k not in obs and not isinstance(v, (list, dict)):
                obs[k] = v
            elif k not in obs:
                obs[k] = v if len(json.dumps(v)) < 300 else "(large)"
        if base:
            for k, v in base.items():
                obs.setdefault(k, v)
        res.append(obs)
    return res


def main_wrapper(fn):
    """Run fn() -> exit code; turn MachineryError / unexpected exceptions into exit 2."""
    try:
        rc = fn()
    except MachineryError as e:
        print("MACHINERY-ERROR " + str(e)[:8000])
        sys.exit(2)
    except Exception as e:  # noqa
        import traceback
        traceback.print_exc()
        print("MACHINERY-ERROR unexpected: " + repr(e))
        sys.exit(2)
    sys.exit(rc)


# ----------------------------------------------------------------------------- race detector reports

_frame_re = re.compile(r"^\s+(\S+)\(\)\n\s+(\S+?):(\d+)", re.M)


def parse_race_reports(stderr_text, repo_marker="livesim2/"):
    """Turn Go race-detector output into a list of {site, funcs} (deduplicated).
    site = sorted pair of the innermost frames inside the repository for the two accesses."""
    reports = []
    seen = set()
    blocks = stderr_text.split("WARNING: DATA RACE")[1:]
    for b in blocks:
        b = b.split("==================")[0]
        # sections: first access, "Previous ..." access, goroutine creation stacks
        parts = re.split(r"\n(?=Previous |Goroutine )", b)
        accesses = [p for p in parts if not p.startswith("Goroutine ")][:2]
        sites = []
        for acc in accesses:
            site = None
            for m in _frame_re.finditer(acc):
                fn, path = m.group(1), m.group(2)
                if repo_marker in path or repo_marker in fn or str(REPO) in path:
                    short = path.split("/")[-1] + ":" + fn.split(".")[-1].split("/")[-1]
                    site = short
                    break
            sites.append(site or "(outside repo)")
        key = "<->".join(sorted(sites))
        if key not in seen:
            seen.add(key)
            reports.append({"site": key})
    if "fatal error: concurrent map" in stderr_text:
        m = re.search(r"fatal error: (concurrent map[^\n]*)", stderr_text)
        reports.append({"site": "fatal:" + m.group(1)})
    return reports


def run_race_child(binary, args, *, timeout=600, env=None):
    """Run a -race child process; returns (reports, rc, stderr_tail). A child that dies without a
    detector report or a runtime fatal message is a machinery error."""
    e = goenv()
    e["GORACE"] = "halt_on_error=0 exitcode=66 history_size=5"
    e["VERIF_REPO"] = str(REPO)
    if env:
        e.update(env)
    try:
        p = subprocess.run([str(binary)] + [str(a) for a in args], cwd=str(WORK), env=e,
                           capture_output=True, text=True, timeout=timeout)
    except subprocess.TimeoutExpired:
        raise MachineryError(f"race child timeout: {args}")
    reports = parse_race_reports(p.stderr)
    if p.returncode not in (0, 66) and not reports:
        raise MachineryError(f"race child {args} died rc={p.returncode} without a report:\n{p.stderr[-3000:]}")
    if p.returncode == 66 and not reports:
        raise MachineryError(f"race child exit 66 but no report parsed:\n{p.stderr[-3000:]}")
    return reports, p.returncode, p.stderr[-1500:]
